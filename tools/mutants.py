#!/venv/bin/python
"""Run checks against property-breaking patches, in a scratch copy of /repo.

usage: tools/mutants.py [--tier quick] [--props C06,C05] patch.diff [patch2.diff ...]

Each patch file may start with comment lines:
   # props: C06 C05      (which checks are expected to catch it; default: from --props)
   # note: free text
For each patch: copy /repo (tracked files) to a scratch dir outside /repo and /verif,
apply the patch, run the repository's test suite there (must stay green for the mutant
to count), run the listed checks with HV_REPO=<scratch>, report, delete the scratch dir.
Never touches /repo.
"""
import argparse
import json
import os
import re
import shutil
import subprocess
import sys
import tempfile

VERIF = os.path.dirname(os.path.dirname(os.path.abspath(__file__)))
REPO = "/repo"


def sh(cmd, cwd=None, env=None, timeout=3600):
    p = subprocess.run(cmd, shell=True, cwd=cwd, env=env, capture_output=True, text=True,
                       timeout=timeout)
    return p.returncode, p.stdout + p.stderr


def make_scratch():
    d = tempfile.mkdtemp(prefix="hv-scratch-", dir="/tmp")
    rc, out = sh(f"git -C {REPO} ls-files -z | (cd {REPO} && xargs -0 cp --parents -t {d})")
    # also carry over uncommitted working-tree modifications? No: scratch == HEAD + working tree files
    return d


def run_one(patch, props, tier, keep=False):
    text = open(patch).read()
    m = re.search(r"^# props:\s*(.*)$", text, re.M)
    if m:
        props = m.group(1).split()
    d = make_scratch()
    res = {"patch": os.path.basename(patch), "props": props}
    try:
        rc, out = sh(f"patch -p1 --no-backup-if-mismatch < {os.path.abspath(patch)}", cwd=d)
        if rc != 0:
            res["error"] = "patch does not apply: " + out[-500:]
            return res
        env = dict(os.environ, PYTHONPATH=d, PYTHONDONTWRITEBYTECODE="1")
        rc, out = sh("/venv/bin/python -m pytest -q -p no:cacheprovider -x tests 2>&1 | tail -5",
                     cwd=d, env=env)
        res["pytest"] = out.strip().splitlines()[-1] if out.strip() else "?"
        res["pytest_green"] = (" passed" in res["pytest"] and "failed" not in res["pytest"]
                               and "error" not in res["pytest"])
        env2 = dict(os.environ, HV_REPO=d, HV_QUIET="1")
        res["checks"] = {}
        for p in props:
            rc, out = sh(f"./check {p} --tier {tier}", cwd=VERIF, env=env2)
            viol = [l for l in out.splitlines() if l.startswith("VIOLATION")]
            firsts = [l for l in out.splitlines() if l.strip().startswith("violation[")][:3]
            res["checks"][p] = {"exit": rc, "violation_lines": len(viol), "first": firsts}
    finally:
        if not keep:
            shutil.rmtree(d, ignore_errors=True)
    return res


def main():
    ap = argparse.ArgumentParser()
    ap.add_argument("--tier", default="quick")
    ap.add_argument("--props", default="")
    ap.add_argument("--json", action="store_true")
    ap.add_argument("patches", nargs="+")
    a = ap.parse_args()
    props = [p for p in a.props.split(",") if p]
    allres = []
    for patch in a.patches:
        r = run_one(patch, props, a.tier)
        allres.append(r)
        if a.json:
            continue
        if "error" in r:
            print(f"{r['patch']}: ERROR {r['error']}")
            continue
        det = " ".join(f"{p}:{'CAUGHT' if c['exit'] == 1 and c['violation_lines'] else 'missed(exit %d)' % c['exit']}"
                       for p, c in r["checks"].items())
        print(f"{r['patch']}: pytest[{ 'green' if r['pytest_green'] else 'RED' }: {r['pytest']}] {det}")
        for p, c in r["checks"].items():
            for f in c["first"]:
                print("      ", f[:200])
    if a.json:
        print(json.dumps(allres, indent=1))


if __name__ == "__main__":
    main()
