#!/venv/bin/python
"""Regenerate MANIFEST.json from the property modules present in hv/props.

Properties without a module are listed under not_applicable with the reason given in
NOT_CLAIMED below (kept current by hand)."""
import importlib
import json
import os
import sys

HERE = os.path.dirname(os.path.dirname(os.path.abspath(__file__)))
sys.path.insert(0, HERE)

NOT_CLAIMED = {
    # "C99": "reason",
}
PENDING = "check not built yet in this round (planned: see DESIGN.md section 6)"

BASELINE_OFF = ("cd /repo && /venv/bin/python -m pytest -ra -q -p no:cacheprovider "
                "--timeout=900 --continue-on-collection-errors")


def main():
    props = [json.loads(l) for l in open(os.path.join(HERE, "properties.jsonl"))]
    checks, na = [], []
    for p in props:
        pid = p["id"]
        try:
            mod = importlib.import_module(f"hv.props.{pid.lower()}")
        except ModuleNotFoundError:
            na.append({"property_id": pid, "reason": NOT_CLAIMED.get(pid, PENDING)})
            continue
        checks.append({
            "property_id": pid,
            "quick_cmd": f"./check {pid} --tier quick",
            "thorough_cmd": f"./check {pid} --tier thorough",
            "evidence_file": f"/verif/evidence/{pid}.json",
            "replay_cmd_template": f"./check {pid} --replay {{path}}",
            "engine": getattr(mod, "ENGINE", "hv"),
            "level_claimed": {
                "category": mod.LEVEL,
                "text": getattr(mod, "LEVEL_TEXT", mod.RULE),
                "design_ref": getattr(mod, "DESIGN_REF", f"DESIGN.md section 6, {pid}"),
            },
            "level_note": getattr(mod, "LEVEL_NOTE", "; ".join(getattr(mod, "ASSUMPTIONS", []))
                                  or "trusted base: CPython, the reference model in hv/ref"),
            "technique": getattr(mod, "TECHNIQUE",
                                 "bounded exhaustive enumeration of executions of the real "
                                 "implementation against a reference model (explicit-state "
                                 "model checking, stateless)"),
        })
    man = {
        "version": 1,
        "setup_cmd": "/venv/bin/python -c \"import sys; sys.path.insert(0,'/repo'); import htmltools, hv.runner\"",
        "hooks": {
            "guard": "PY_HTMLTOOLS_VERIF",
            "enable": "no source hooks are needed: every observation point is public API, "
                      "__dict__, sys.displayhook or the file system; checks import htmltools "
                      "from /repo's working tree in a fresh interpreter",
            "baseline_off_cmd": BASELINE_OFF,
            "source_commits": [],
            "add_only": True,
        },
        "engines": [
            {"name": "hv", "path": "/verif/hv",
             "serves_properties": [c["property_id"] for c in checks],
             "kind_free_text": "hand-written explicit-state explorer for Python: E1 indexable "
                               "bounded-exhaustive input spaces, E2 BFS over operation histories "
                               "with canonical-state de-duplication, E3 configuration/fault "
                               "products, E4 per-hash-seed subprocess enumeration; every execution "
                               "runs the real implementation and is compared with a reference model"},
        ],
        "checks": checks,
        "notes": "All checks run the real code from /repo's working tree (HV_REPO overrides). "
                 "known_findings.json lists open findings (none expected) and fixed defects.",
        "not_applicable": na,
    }
    with open(os.path.join(HERE, "MANIFEST.json"), "w") as f:
        json.dump(man, f, indent=1)
    print(f"MANIFEST.json: {len(checks)} checks, {len(na)} not claimed")


if __name__ == "__main__":
    main()
