#!/bin/bash
# run every check at a tier (default quick), print one line each, validate evidence
cd "$(dirname "$0")/.."
tier=${1:-quick}
fail=0
for i in $(seq -w 1 20); do
  p=C$i
  s=$(date +%s)
  out=$(HV_QUIET=1 ./check $p --tier $tier 2>&1); rc=$?
  e=$(date +%s)
  echo "$p rc=$rc $((e-s))s $(echo "$out" | tail -1)"
  [ $rc -ne 0 ] && fail=1 && echo "$out" | tail -5
done
python3-vt - <<'PY'
import json, jsonschema, glob
sch=json.load(open('/root/.vp/EVIDENCE.schema.json'))
for f in sorted(glob.glob('/verif/evidence/C*.json')):
    jsonschema.validate(json.load(open(f)), sch)
jsonschema.validate(json.load(open('/verif/MANIFEST.json')), json.load(open('/root/.vp/MANIFEST.schema.json')))
print("evidence + manifest schemas ok:", len(glob.glob('/verif/evidence/C*.json')), "files")
PY
exit $fail
