#!/venv/bin/python
"""Generate mutants/<id>.diff from mutants/specs.py against the current /repo tree."""
import difflib
import os
import sys

VERIF = os.path.dirname(os.path.dirname(os.path.abspath(__file__)))
sys.path.insert(0, os.path.join(VERIF, "mutants"))
import specs  # noqa: E402

bad = 0
for m in specs.M:
    path = os.path.join("/repo", m["file"])
    src = open(path).read()
    n = src.count(m["old"])
    if n != 1:
        print(f"{m['id']}: old text occurs {n} times in {m['file']} - skipped")
        bad += 1
        continue
    new = src.replace(m["old"], m["new"])
    diff = "".join(difflib.unified_diff(src.splitlines(True), new.splitlines(True),
                                        "a/" + m["file"], "b/" + m["file"]))
    with open(os.path.join(VERIF, "mutants", m["id"] + ".diff"), "w") as f:
        f.write(f"# props: {m['props']}\n# note: {m['note']}\n" + diff)
print(f"{len(specs.M) - bad} mutants written, {bad} skipped")
