#!/venv/bin/python
"""Systematic first-order mutants of htmltools (AST level), run against the checks that cover the mutated function.

usage: tools/automutate.py [--every K] [--offset O] [--jobs J] [--out FILE]

Mutation operators: comparison flips (== != < <= > >= is/is not in/not in), and<->or, `not` removal, constant
changes (0<->1, True<->False, "" <-> "x", other small ints +1), statement deletion (expression statements,
assignments -> pass), `if` condition negation, return-value drop (return x -> return None for non-None returns).
Mutants that do not import are skipped.  Every k-th mutation point (deterministic order) is taken.
For each mutant the mapped checks run (quick tier) in a scratch copy until one reports a violation.
Result rows: file, line, function, operator, before -> after, caught_by | SURVIVED.
"""
import argparse, ast, copy, json, os, shutil, subprocess, sys, tempfile, time
from concurrent.futures import ThreadPoolExecutor

VERIF = os.path.dirname(os.path.dirname(os.path.abspath(__file__)))
REPO = "/repo"
FILES = ["htmltools/_core.py", "htmltools/_util.py", "htmltools/_jsx.py"]

CLASS_MAP = {
    "TagList": ["C14", "C06", "C02", "C09", "C10", "C08", "C05", "C13", "C12"],
    "Tag": ["C01", "C06", "C15", "C16", "C17", "C08", "C03", "C04", "C12", "C10"],
    "TagAttrDict": ["C15", "C03", "C16", "C01"],
    "HTML": ["C04", "C03"],
    "HTMLDocument": ["C11", "C12", "C08", "C09"],
    "HTMLTextDocument": ["C13"],
    "HTMLDependency": ["C10", "C12", "C13", "C11", "C08", "C18"],
    "MetadataNode": ["C07", "C08"],
    "JSXTag": ["C20"], "JSXTagAttrDict": ["C20"], "jsx": ["C20"],
}
FUNC_MAP = {
    "save_html": ["C12", "C08"], "get_dependencies": ["C10", "C20"], "copy_to": ["C12"], "html_escape": ["C02", "C03", "C04"], "css": ["C16"], "flatten": ["C14"], "_flatten_recurse": ["C14"],
    "package_dir": ["C12", "C20"], "hash_deterministic": ["C18", "C11"], "head_content": ["C18", "C11"],
    "wrap_displayhook_handler": ["C17"], "_tagchilds_to_tagnodes": ["C14", "C02"], "_normalize_text": ["C02", "C04"],
    "_equals_impl": ["C08"], "_resolve_dependencies": ["C10", "C11"], "is_tag_node": ["C14"], "is_tag_child": ["C14"],
    "_render_tag_or_taglist": ["C13", "C08"], "_plain_text": ["C04", "C03", "C02"], "consolidate_attrs": ["C15"],
    "_should_not_expand": ["C14"], "_tag_show": [], "_lib_dependency": ["C20"], "_walk_attrs_and_children": ["C20"],
    "_render_react_js": ["C20"], "_serialize_attr": ["C20"], "_serialize_style_attr": ["C20"], "jsx_tag_create": ["C20"],
}
SKIP_FUNCS = {"show", "_tag_show", "__repr__", "__str__"}   # interactive preview helpers: no listed property


class Point:
    def __init__(self, file, node_path, op, before, after, func, cls, line):
        self.__dict__.update(locals())


def enclosing(tree):
    """map id(node) -> (class name, function name)"""
    out = {}

    def walk(n, cls, fn):
        for c in ast.iter_child_nodes(n):
            if isinstance(c, ast.ClassDef):
                walk(c, c.name, None)
            elif isinstance(c, (ast.FunctionDef, ast.AsyncFunctionDef)):
                walk(c, cls, fn or c.name)
            else:
                out[id(c)] = (cls, fn)
                walk(c, cls, fn)
    walk(tree, None, None)
    return out


CMP = {ast.Eq: ast.NotEq, ast.NotEq: ast.Eq, ast.Lt: ast.LtE, ast.LtE: ast.Lt, ast.Gt: ast.GtE, ast.GtE: ast.Gt,
       ast.Is: ast.IsNot, ast.IsNot: ast.Is, ast.In: ast.NotIn, ast.NotIn: ast.In}


def mutations(tree):
    """yield (description, mutator(tree_copy_node)) over nodes in deterministic order; the mutator edits IN PLACE."""
    enc = enclosing(tree)
    nodes = [n for n in ast.walk(tree)]
    for idx, n in enumerate(nodes):
        cls, fn = enc.get(id(n), (None, None))
        if fn is None and cls is None:
            continue
        if fn in SKIP_FUNCS:
            continue
        line = getattr(n, "lineno", 0)
        if isinstance(n, ast.Compare) and len(n.ops) == 1 and type(n.ops[0]) in CMP:
            yield idx, "cmp", cls, fn, line
        elif isinstance(n, ast.BoolOp):
            yield idx, "boolop", cls, fn, line
        elif isinstance(n, ast.UnaryOp) and isinstance(n.op, ast.Not):
            yield idx, "not", cls, fn, line
        elif isinstance(n, ast.Constant) and isinstance(n.value, (bool, int, str)) and not isinstance(n.value, type(None)):
            if isinstance(n.value, str) and len(n.value) > 40:
                continue
            yield idx, "const", cls, fn, line
        elif isinstance(n, ast.If):
            yield idx, "ifneg", cls, fn, line
        elif isinstance(n, ast.Return) and n.value is not None and not (isinstance(n.value, ast.Constant) and n.value.value is None):
            yield idx, "retnone", cls, fn, line
        elif isinstance(n, ast.Expr) and isinstance(n.value, ast.Call):
            yield idx, "delstmt", cls, fn, line
        elif isinstance(n, (ast.Assign, ast.AugAssign)) and fn not in ("__init__",):
            yield idx, "delstmt", cls, fn, line


def is_docstring_const(tree, target):
    for n in ast.walk(tree):
        if isinstance(n, (ast.FunctionDef, ast.ClassDef, ast.Module)) and n.body and isinstance(n.body[0], ast.Expr) \
                and n.body[0].value is target:
            return True
    return False


def apply(tree, idx, op):
    nodes = [n for n in ast.walk(tree)]
    n = nodes[idx]
    before = ast.unparse(n)[:80]
    if op == "cmp":
        n.ops = [CMP[type(n.ops[0])]()]
    elif op == "boolop":
        n.op = ast.Or() if isinstance(n.op, ast.And) else ast.And()
    elif op == "not":
        n.op = ast.UAdd() if False else n.op
        # replace `not x` by `x`: copy fields of operand into a wrapper
        new = ast.Call(func=ast.Name(id="bool", ctx=ast.Load()), args=[n.operand], keywords=[])
        return before, replace_node(tree, n, new)
    elif op == "const":
        if is_docstring_const(tree, n):
            return None, None
        v = n.value
        if isinstance(v, bool):
            n.value = not v
        elif isinstance(v, int):
            n.value = 1 if v == 0 else (0 if v == 1 else v + 1)
        else:
            n.value = "x" if v == "" else ("" if len(v) == 1 else v[:-1])
    elif op == "ifneg":
        n.test = ast.UnaryOp(op=ast.Not(), operand=n.test)
    elif op == "retnone":
        n.value = ast.Constant(value=None)
    elif op == "delstmt":
        return before, replace_node(tree, n, ast.Pass())
    ast.fix_missing_locations(tree)
    return before, ast.unparse(n)[:80]


def replace_node(tree, old, new):
    for parent in ast.walk(tree):
        for field, val in ast.iter_fields(parent):
            if val is old:
                setattr(parent, field, new)
                ast.fix_missing_locations(tree)
                return ast.unparse(new)[:80]
            if isinstance(val, list):
                for i, x in enumerate(val):
                    if x is old:
                        val[i] = new
                        ast.fix_missing_locations(tree)
                        return ast.unparse(new)[:80]
    return None


def checks_for(cls, fn):
    props = []
    if fn in FUNC_MAP:
        props += FUNC_MAP[fn]
    if cls in CLASS_MAP:
        props += CLASS_MAP[cls]
    return list(dict.fromkeys(props))[:7]


def run_one(task):
    file, idx, op, cls, fn, line, src = task
    tree = ast.parse(src)
    before, after = apply(tree, idx, op)
    if after is None or before == after:
        return None
    row = {"file": file, "line": line, "class": cls, "function": fn, "op": op, "before": before, "after": after}
    d = tempfile.mkdtemp(prefix="hv-am-", dir="/tmp")
    try:
        subprocess.run(f"git -C {REPO} ls-files -z | (cd {REPO} && xargs -0 cp --parents -t {d})", shell=True, check=True)
        open(os.path.join(d, file), "w").write(ast.unparse(tree))
        env = dict(os.environ, PYTHONPATH=d, PYTHONDONTWRITEBYTECODE="1")
        p = subprocess.run(["/venv/bin/python", "-c", "import htmltools, htmltools.tags, htmltools.svg"], env=env, cwd=d, capture_output=True)
        if p.returncode != 0:
            row["result"] = "does-not-import"
            return row
        props = checks_for(cls, fn)
        row["checks"] = props
        env2 = dict(os.environ, HV_REPO=d, HV_QUIET="1", HV_PROCS=os.environ.get("AM_PROCS", "4"), HV_VIOL_STOP="200")
        for pr in props:
            t = time.time()
            q = subprocess.run(["./check", pr, "--tier", "quick"], cwd=VERIF, env=env2, capture_output=True, text=True, timeout=3600)
            if q.returncode == 1 and "VIOLATION" in q.stdout:
                first = next((l.strip() for l in q.stdout.splitlines() if l.strip().startswith("violation[")), "")
                row["result"] = "caught"
                row["caught_by"] = pr
                row["first"] = first[:160]
                row["secs"] = round(time.time() - t, 1)
                return row
        row["result"] = "SURVIVED" if props else "no-check-mapped"
        return row
    finally:
        shutil.rmtree(d, ignore_errors=True)


def main():
    ap = argparse.ArgumentParser()
    ap.add_argument("--every", type=int, default=6)
    ap.add_argument("--offset", type=int, default=0)
    ap.add_argument("--jobs", type=int, default=4)
    ap.add_argument("--out", default=os.path.join(VERIF, "mutants", "AUTO_RESULTS.json"))
    ap.add_argument("--limit", type=int, default=0)
    ap.add_argument("--lines", default="", help="only mutation points on these lines, e.g. _core.py:794,_core.py:953")
    a = ap.parse_args()
    tasks = []
    for f in FILES:
        src = open(os.path.join(REPO, f)).read()
        tree = ast.parse(src)
        pts = list(mutations(tree))
        for k, (idx, op, cls, fn, line) in enumerate(pts):
            if a.lines:
                if f"{os.path.basename(f)}:{line}" in a.lines.split(","):
                    tasks.append((f, idx, op, cls, fn, line, src))
            elif (k + a.offset) % a.every == 0:
                tasks.append((f, idx, op, cls, fn, line, src))
        print(f, len(pts), "mutation points", file=sys.stderr)
    if a.limit:
        tasks = tasks[:a.limit]
    print(len(tasks), "mutants selected", file=sys.stderr)
    rows = []
    with ThreadPoolExecutor(max_workers=a.jobs) as ex:
        for r in ex.map(run_one, tasks):
            if r is None:
                continue
            rows.append(r)
            print(f"{r['file']}:{r['line']} {r['class']}.{r['function']} [{r['op']}] {r['before']!r} -> {r['after']!r}: "
                  f"{r['result']} {r.get('caught_by', '')}", flush=True)
            json.dump(rows, open(a.out, "w"), indent=1)
    summ = {}
    for r in rows:
        summ[r["result"]] = summ.get(r["result"], 0) + 1
    print(summ)


if __name__ == "__main__":
    main()
