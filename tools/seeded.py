#!/venv/bin/python
"""Confirm and evaluate seeded (sub-agent written) property-breaking changes.

usage: tools/seeded.py verify  <dir-with patch.diff demo.py meta.json> [--tier quick] [--props C05,C06]
       tools/seeded.py adopt   <dir> <seeded-id>          (after verify: copy into /verif/seeded/<id>/)
       tools/seeded.py rerun   [--tier quick] [ids...]    (re-run checks against everything in /verif/seeded)

verify: in a scratch copy of /repo (outside /repo and /verif, removed afterwards):
  1. demo.py on the unchanged tree must exit 0
  2. apply patch.diff; the repository's test suite must stay green
  3. demo.py with the change must exit non-zero
  4. run the property's check(s) with HV_REPO=<scratch>; report CAUGHT / missed
Writes <dir>/verify.json.
"""
import argparse
import json
import os
import shutil
import subprocess
import sys
import tempfile
import time

VERIF = os.path.dirname(os.path.dirname(os.path.abspath(__file__)))
REPO = "/repo"


def sh(cmd, cwd=None, env=None, timeout=7200):
    p = subprocess.run(cmd, shell=True, cwd=cwd, env=env, capture_output=True, text=True, timeout=timeout)
    return p.returncode, p.stdout + p.stderr


def make_scratch():
    d = tempfile.mkdtemp(prefix="hv-scratch-", dir="/tmp")
    sh(f"git -C {REPO} ls-files -z | (cd {REPO} && xargs -0 cp --parents -t {d})")
    return d


def verify(src, tier, props, keep=False):
    meta = json.load(open(os.path.join(src, "meta.json")))
    prop = meta.get("property")
    props = props or [prop]
    d = make_scratch()
    res = {"dir": src, "property": prop, "props_checked": props, "tier": tier,
           "repo_head": sh(f"git -C {REPO} rev-parse --short HEAD")[1].strip()}
    try:
        env = dict(os.environ, PYTHONPATH=d, PYTHONDONTWRITEBYTECODE="1")
        demo = os.path.abspath(os.path.join(src, "demo.py"))
        rc, out = sh(f"/venv/bin/python {demo}", cwd=d, env=env, timeout=600)
        res["demo_clean_exit"] = rc
        rc, out = sh(f"git apply --whitespace=nowarn {os.path.abspath(os.path.join(src, 'patch.diff'))}", cwd=d)
        if rc != 0:
            rc, out2 = sh(f"patch -p1 --no-backup-if-mismatch < {os.path.abspath(os.path.join(src, 'patch.diff'))}", cwd=d)
            if rc != 0:
                res["error"] = "patch does not apply: " + (out + out2)[-400:]
                return res
        rc, out = sh("/venv/bin/python -m pytest -q -p no:cacheprovider tests 2>&1 | tail -3", cwd=d, env=env)
        last = out.strip().splitlines()[-1] if out.strip() else "?"
        res["pytest"] = last
        res["pytest_green"] = " passed" in last and "failed" not in last and "error" not in last
        rc, out = sh(f"/venv/bin/python {demo}", cwd=d, env=env, timeout=600)
        res["demo_patched_exit"] = rc
        res["demo_patched_tail"] = out.strip().splitlines()[-3:]
        env2 = dict(os.environ, HV_REPO=d, HV_QUIET="1")
        res["checks"] = {}
        for p in props:
            t = time.time()
            rc, out = sh(f"./check {p} --tier {tier}", cwd=VERIF, env=env2)
            viol = [l for l in out.splitlines() if l.startswith("VIOLATION")]
            firsts = [l.strip() for l in out.splitlines() if l.strip().startswith("violation[")][:4]
            res["checks"][p] = {"exit": rc, "caught": rc == 1 and bool(viol), "first": firsts,
                                "wall_s": round(time.time() - t, 1)}
        res["valid"] = (res["demo_clean_exit"] == 0 and res["pytest_green"] and res["demo_patched_exit"] != 0)
    finally:
        if not keep:
            shutil.rmtree(d, ignore_errors=True)
    with open(os.path.join(src, "verify.json"), "w") as f:
        json.dump(res, f, indent=1)
    return res


def show(res):
    if "error" in res:
        print(f"{res['dir']}: ERROR {res['error']}")
        return
    det = " ".join(f"{p}:{'CAUGHT' if c['caught'] else 'MISSED(exit %d)' % c['exit']}({c['wall_s']}s)"
                   for p, c in res["checks"].items())
    print(f"{res['dir']}: valid={res['valid']} [demo clean={res['demo_clean_exit']} patched={res['demo_patched_exit']} "
          f"pytest={res['pytest']}] {det}")
    for p, c in res["checks"].items():
        for f in c["first"][:2]:
            print("      ", f[:220])


def adopt(src, sid):
    dst = os.path.join(VERIF, "seeded", sid)
    os.makedirs(dst, exist_ok=True)
    for f in ("patch.diff", "demo.py"):
        shutil.copy(os.path.join(src, f), os.path.join(dst, f))
    meta = json.load(open(os.path.join(src, "meta.json")))
    ver = json.load(open(os.path.join(src, "verify.json")))
    meta["breaks_property"] = meta.get("property")
    meta["needs_to_manifest"] = meta.get("needs")
    meta["confirmed"] = {
        "how": "tools/seeded.py verify: scratch copy of /repo at " + ver["repo_head"] +
               "; demo.py exit 0 on the unchanged tree; patch applied; pytest (77 tests) green; demo.py "
               "exits non-zero with the change",
        "demo_clean_exit": ver["demo_clean_exit"], "demo_patched_exit": ver["demo_patched_exit"],
        "pytest_with_change": ver["pytest"],
    }
    meta["checks_run"] = {p: {"tier": ver["tier"], "caught": c["caught"], "first_violation": (c["first"] or [None])[0]}
                          for p, c in ver["checks"].items()}
    with open(os.path.join(dst, "meta.json"), "w") as f:
        json.dump(meta, f, indent=1)
    print("adopted", dst)


def rerun(ids, tier, main_only=False):
    base = os.path.join(VERIF, "seeded")
    ids = ids or sorted(os.listdir(base))
    rows = []
    for sid in ids:
        src = os.path.join(base, sid)
        if not os.path.exists(os.path.join(src, "patch.diff")):
            continue
        meta = json.load(open(os.path.join(src, "meta.json")))
        props = list(meta.get("checks_run", {}).keys()) or [meta["property"]]
        if main_only:
            props = [meta.get("breaks_property") or meta["property"]]
        # work on a temp copy so that verify.json does not land in /verif/seeded
        tmp = tempfile.mkdtemp(prefix="hv-seed-", dir="/tmp")
        try:
            for f in ("patch.diff", "demo.py", "meta.json"):
                shutil.copy(os.path.join(src, f), tmp)
            res = verify(tmp, tier, props)
            res["dir"] = sid
            show(res)
            rows.append(res)
            if "checks" in res and not res.get("valid"):
                # the change applies but its demo no longer fails on the current tree: a later fix in /repo made the
                # changed code unreachable or harmless; the recorded detection (at adoption time) is kept
                meta["superseded"] = (f"no longer manifests on /repo {res['repo_head']}: the change applies and the tests stay "
                                      "green, but its own demo passes with it (neutralised by a later fix: commit)")
                with open(os.path.join(src, "meta.json"), "w") as f:
                    json.dump(meta, f, indent=1)
            elif "checks" in res:
                meta.pop("superseded", None)
                meta.setdefault("checks_run", {}).update({p: {"tier": tier, "caught": c["caught"],
                                                              "first_violation": (c["first"] or [None])[0]}
                                                          for p, c in res["checks"].items()})
                meta["confirmed"]["rerun_at_repo_head"] = res["repo_head"]
                meta["confirmed"]["demo_clean_exit"] = res["demo_clean_exit"]
                meta["confirmed"]["demo_patched_exit"] = res["demo_patched_exit"]
                meta["confirmed"]["pytest_with_change"] = res["pytest"]
                with open(os.path.join(src, "meta.json"), "w") as f:
                    json.dump(meta, f, indent=1)
        finally:
            shutil.rmtree(tmp, ignore_errors=True)
    return rows


def main():
    ap = argparse.ArgumentParser()
    ap.add_argument("cmd", choices=["verify", "adopt", "rerun"])
    ap.add_argument("args", nargs="*")
    ap.add_argument("--tier", default="quick")
    ap.add_argument("--props", default="")
    ap.add_argument("--main-only", action="store_true")
    a = ap.parse_args()
    props = [p for p in a.props.split(",") if p]
    if a.cmd == "verify":
        for src in a.args:
            show(verify(src, a.tier, props))
    elif a.cmd == "adopt":
        adopt(a.args[0], a.args[1])
    else:
        rows = rerun(a.args, a.tier, a.main_only)
        missed = [r["dir"] for r in rows if "checks" in r and not any(c["caught"] for c in r["checks"].values())]
        print(f"{len(rows)} seeded changes; missed by every listed check: {missed}")


if __name__ == "__main__":
    main()
