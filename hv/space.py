"""Finite, indexable case spaces (bounded-exhaustive enumeration by unranking).

A Space has a .size and s[i] for 0 <= i < size; every index denotes a distinct case
and the order is "simplest first" (Alt lists its parts in the order given, Seq lists
shorter sequences first).  Being indexable makes sharding over worker processes
trivial (contiguous index ranges) and makes every case addressable in a replay file.
"""
from __future__ import annotations

from bisect import bisect_right
from typing import Any, Callable, Sequence


class Space:
    size: int = 0

    def __getitem__(self, i: int) -> Any:  # pragma: no cover - abstract
        raise NotImplementedError

    def __iter__(self):
        for i in range(self.size):
            yield self[i]

    def map(self, f: Callable[[Any], Any]) -> "Space":
        return Map(self, f)


class Const(Space):
    def __init__(self, values: Sequence[Any]):
        self.values = list(values)
        self.size = len(self.values)

    def __getitem__(self, i: int) -> Any:
        return self.values[i]


class Alt(Space):
    """Disjoint union, parts in the order given."""

    def __init__(self, *parts: Space):
        self.parts = [p for p in parts]
        self.cum = []
        tot = 0
        for p in self.parts:
            tot += p.size
            self.cum.append(tot)
        self.size = tot

    def __getitem__(self, i: int) -> Any:
        if i < 0 or i >= self.size:
            raise IndexError(i)
        k = bisect_right(self.cum, i)
        base = self.cum[k - 1] if k else 0
        return self.parts[k][i - base]


class Prod(Space):
    """Cartesian product; the last component varies fastest. Yields tuples."""

    def __init__(self, *parts: Space):
        self.parts = list(parts)
        n = 1
        for p in self.parts:
            n *= p.size
        self.size = n

    def __getitem__(self, i: int) -> Any:
        if i < 0 or i >= self.size:
            raise IndexError(i)
        out = []
        for p in reversed(self.parts):
            i, r = divmod(i, p.size)
            out.append(p[r])
        out.reverse()
        return tuple(out)


class Seq(Space):
    """All sequences (as lists) of length lo..hi over elem, shorter first."""

    def __init__(self, elem: Space, lo: int, hi: int):
        self.elem = elem
        self.lo = lo
        self.hi = hi
        self.cum = []
        tot = 0
        for n in range(lo, hi + 1):
            tot += elem.size ** n
            self.cum.append(tot)
        self.size = tot

    def __getitem__(self, i: int) -> Any:
        if i < 0 or i >= self.size:
            raise IndexError(i)
        k = bisect_right(self.cum, i)
        base = self.cum[k - 1] if k else 0
        i -= base
        n = self.lo + k
        es = self.elem.size
        out = []
        for _ in range(n):
            i, r = divmod(i, es)
            out.append(self.elem[r])
        out.reverse()
        return out


class Map(Space):
    def __init__(self, inner: Space, f: Callable[[Any], Any]):
        self.inner = inner
        self.f = f
        self.size = inner.size

    def __getitem__(self, i: int) -> Any:
        return self.f(self.inner[i])


class Filter(Space):
    """Materialised filter (only for small spaces)."""

    def __init__(self, inner: Space, pred: Callable[[Any], bool]):
        self.values = [x for x in inner if pred(x)]
        self.size = len(self.values)

    def __getitem__(self, i: int) -> Any:
        return self.values[i]


def trees(leaves: Space, kinds: Sequence[Callable[[list], Any]], depth: int,
          widths: Sequence[int] | int) -> Space:
    """All trees of depth <= `depth` (a leaf or a childless kind has depth 0).

    kinds are constructors kids -> spec.  widths is the maximal fan-out, either one
    number or one per level counted from the root (root level first).
    Every tree occurs exactly once.
    """
    if isinstance(widths, int):
        widths = [widths] * max(depth, 1)
    kspace = Const(list(kinds))
    level = Alt(leaves, Map(kspace, lambda k: k([])))
    # build bottom-up: the level nearest the leaves uses widths[depth-1]
    for d in range(depth, 0, -1):
        w = widths[d - 1]
        inner = level
        level = Alt(
            leaves,
            Map(Prod(kspace, Seq(inner, 0, w)), lambda kv: kv[0](kv[1])),
        )
    return level
