"""C15 - attribute names and values are normalised and merged in argument order.

E1 over constructor argument lists; E2 (BFS) over subsequent update / item-assignment
histories; reference attribute model R6 written from the statement.
"""
from __future__ import annotations

from ..space import Alt, Const, Map, Prod, Seq

ID = "C15"
LEVEL = "model_checking"
RULE = ("constructor calls: one positional dict of 1-2 entries (+0-1 keyword), two single-entry dicts "
        "(+0-1 keyword), 0-2 keywords, over raw names {x, x_, x__, a_b, a-b, class_, data_x_} x values "
        "{'v', 'w q', '', None, False, True, 3, 2.5, HTML('h')}, dicts interleaved with children; for "
        "each: Tag attrs vs model R6 (order, value, str/HTML type), consolidate_attrs, and rebuild "
        "equivalence. BFS over histories of <= 2 (quick) / <= 3 (thorough) attrs.update(...) / "
        "attrs[k]=v from 6 constructed states, de-duplicated by ordered attribute list. Non-trivial = "
        "call with >= 2 values for one normalised name or a history with >= 2 operations.")
ASSUMPTIONS = [
    "R6: name = strip one trailing underscore then '_' -> '-'; None/False dropped, True -> '', "
    "numbers -> str; per call values of one normalised name joined by ' ' in argument order "
    "(dicts left to right, then keywords), result HTML iff any contributor is HTML; order by first "
    "appearance; later update / assignment replaces in place",
    "None/False are used in constructor calls only (statement silent on 'dropped' in a later update)",
]

NAMES = ["x", "x_", "x__", "a_b", "a-b", "class_", "data_x_"]
VALUES = ["v", "w q", "", None, False, True, 3, 2.5, ["H", "h"], 0, 0.0]
RNAMES = ["x", "x_", "a_b"]
RVALUES = ["v", None, True, ["H", "h"]]


def bv(v):
    from htmltools import HTML
    return HTML(v[1]) if isinstance(v, list) else v


# ----------------------------------------------------------------- R6
def norm_name(raw):
    if raw.endswith("_"):
        raw = raw[:-1]
    return raw.replace("_", "-")


def norm_value(v):
    """-> None (dropped) or (text, is_html)"""
    if v is None or v is False:
        return None
    if v is True:
        return ("", False)
    if isinstance(v, list):
        return (v[1], True)
    if isinstance(v, (int, float)):
        return (str(v), False)
    return (v, False)


def model_call(model, dicts, kw):
    """apply one call (constructor / update) to model (ordered list of [name, text, is_html])."""
    acc = {}
    order = []
    for d in list(dicts) + ([kw] if kw else []):
        for raw, v in d:
            nv = norm_value(v)
            if nv is None:
                continue
            n = norm_name(raw)
            if n in acc:
                acc[n] = (acc[n][0] + " " + nv[0], acc[n][1] or nv[1])
            else:
                acc[n] = nv
                order.append(n)
    for n in order:
        for m in model:
            if m[0] == n:
                m[1], m[2] = acc[n]
                break
        else:
            model.append([n, acc[n][0], acc[n][1]])
    return model


def observed(attrs):
    from htmltools import HTML
    return [[k, str(v), isinstance(v, HTML)] for k, v in attrs.items()]


def to_dict(pairs):
    return {raw: bv(v) for raw, v in pairs}


# ------------------------------------------------------- constructor calls (E1)
def fn_call(case):
    from htmltools import Tag, consolidate_attrs
    dicts, kw = case            # dicts: list of list of (raw, v); kw: list of (raw, v)
    # a dict cannot hold the same raw key twice
    for d in dicts:
        if len({r for r, _ in d}) != len(d):
            return (False, "dup-key", [], 0)
    if len({r for r, _ in kw}) != len(kw):
        return (False, "dup-key", [], 0)
    viols = []
    child_tag = Tag("b", "k")
    args = ["c1"]
    for i, d in enumerate(dicts):
        args.append(to_dict(d))
        args.append("c2" if i == 0 else child_tag)
    kwargs = to_dict(kw)
    t = Tag("div", *args, **kwargs)
    exp = model_call([], dicts, kw)
    got = observed(t.attrs)
    if got != exp:
        viols.append(("ctor:attrs", "constructed attributes differ from the model (order, value or str/HTML type)",
                      {"observed": got, "expected": exp}))
    kids = [a for a in args if not isinstance(a, dict)]
    if [type(c).__name__ for c in t.children] != ["str"] + ["str" if i == 0 else "Tag" for i in range(len(dicts))]:
        viols.append(("ctor:children", "dict arguments leaked into / removed children",
                      {"observed": [type(c).__name__ for c in t.children]}))
    # consolidate_attrs
    args2 = ["c1", None, 0, "", []]
    for i, d in enumerate(dicts):
        args2.append(to_dict(d))
        args2.append("c2" if i == 0 else child_tag)
    ca, cc = consolidate_attrs(*args2, **to_dict(kw))
    if type(ca) is not dict or observed(ca) != exp:
        viols.append(("consolidate:attrs", "consolidate_attrs attributes differ from the model",
                      {"observed": observed(ca), "expected": exp}))
    nd = [a for a in args2 if not isinstance(a, dict)]
    if len(cc) != len(nd) or any(x is not y for x, y in zip(cc, nd)):
        viols.append(("consolidate:children", "consolidate_attrs did not return the non-dict arguments unchanged", {}))
    t2 = Tag("div", ca, *cc)
    t_direct = Tag("div", *args2, **to_dict(kw))
    if not (t2 == t_direct) or observed(t2.attrs) != got:
        viols.append(("consolidate:rebuild", "Tag(name, attrs, *children) from consolidate_attrs differs from direct construction",
                      {"rebuilt": observed(t2.attrs), "direct": got}))
    # the positional mappings may also be another tag's .attrs object (a TagAttrDict): same result as
    # giving that tag's attributes as a plain dict, and never shared with the new tag
    if dicts:
        donors = [Tag("i", to_dict(d)) for d in dicts]
        donor_models = [model_call([], [d], []) for d in dicts]
        as_pairs = [[[n, (["H", txt] if ish else txt)] for n, txt, ish in dm] for dm in donor_models]
        t3 = Tag("div", *[d.attrs for d in donors], **to_dict(kw))
        exp3 = model_call([], as_pairs, kw)
        if observed(t3.attrs) != exp3:
            viols.append(("ctor:attrs-object", "passing another tag's .attrs as the positional mapping gives "
                          "different attributes than passing the same attributes as a dict",
                          {"observed": observed(t3.attrs), "expected": exp3}))
        before = [observed(d.attrs) for d in donors]
        t3.attrs["zz-new"] = "1"
        t3.attrs.update({"class": "mut"})
        if [observed(d.attrs) for d in donors] != before or any(t3.attrs is d.attrs for d in donors):
            viols.append(("ctor:attrs-object-aliased", "the new tag shares its attribute map with the tag whose "
                          ".attrs was passed in", {}))
    # rendering carries the attributes in the same order
    s = t.get_html_string()
    pos = [s.find(f' {n}="') for n, _, _ in got]
    if any(p < 0 for p in pos) or pos != sorted(pos):
        viols.append(("ctor:render-order", "rendered attributes are not in stored order", {"observed": s}))
    names = [norm_name(r) for d in dicts for r, v in d if norm_value(v) is not None] + \
            [norm_name(r) for r, v in kw if norm_value(v) is not None]
    return (len(set(names)) < len(names), (len(exp),), viols, 3)


def call_space(tier):
    single = Map(Prod(Const(NAMES), Const(VALUES)), lambda p: [list(p)])
    rpair = Map(Prod(Const(RNAMES), Const(RVALUES), Const(RNAMES), Const(RVALUES)),
                lambda p: [[p[0], p[1]], [p[2], p[3]]])
    onedict = Alt(single, rpair)
    kw01 = Alt(Const([[]]), single)
    rkw01 = Alt(Const([[]]), Map(Prod(Const(RNAMES), Const(RVALUES)), lambda p: [list(p)]))
    kwnames = [n for n in NAMES]
    kw2 = Map(Prod(Const(kwnames), Const(VALUES), Const(kwnames), Const(VALUES)),
              lambda p: [[p[0], p[1]], [p[2], p[3]]])
    A = Map(Prod(onedict, kw01), lambda c: ([c[0]], c[1]))
    B = Map(Prod(single, single, rkw01), lambda c: ([c[0], c[1]], c[2]))
    C = Map(Alt(kw01, kw2), lambda k: ([], k))
    parts = [A, B, C]
    if tier != "quick":
        D = Map(Prod(rpair, rpair, rkw01), lambda c: ([c[0], c[1]], c[2]))
        E3 = Map(Prod(single, single, single), lambda c: ([c[0], c[1], c[2]], []))
        parts += [D, E3]
    return Alt(*parts)


# ---------------------------------------------------------- histories (E2)
INITS = [
    ["new", [], []],
    ["new", [[["x", "v"]]], []],
    ["new", [[["class_", "a"], ["x_", ["H", "h"]]]], [["data_x_", True]]],
    ["new", [[["a_b", 3]], [["a-b", "w q"]]], [["x__", ""]]],
    ["new", [[["x", None], ["x_", "kept"]]], []],
    ["new", [], [["class_", "k"], ["x", 2.5]]],
    ["new", [[["class_", "a"], ["x_", ["H", "h"]]]], [["data_x_", True]], "copy"],
    ["new", [[["a_b", 3]], [["a-b", "w q"]]], [["x__", ""]], "tagify"],
    ["new", [], [], "tagify"],
]
LIVE_VALUES = ["v", "w q", "", True, 3, 2.5, ["H", "h"], 0]


def mk_ops(names, values):
    ops = []
    for n in names:
        for v in values:
            ops.append(["update-dict", [[n, v]]])
            ops.append(["setitem", n, v])
            if n != "a-b":
                ops.append(["update-kw", [[n, v]]])
    ops.append(["update-2dicts", [["x", "p"]], [["x_", ["H", "q"]]]])
    ops.append(["update-2dicts", [["class_", "p"]], [["class", "q"]]])
    ops.append(["update-dict+kw", [["a_b", "p"]], [["a_b", 7]]])
    ops.append(["update-dict", [["x", "one"], ["x_", "two"]]])
    # a dropped (None/False) value followed by a real one for the same name in ONE call:
    # whichever way "dropped" is read, the later value replaces what the tag held
    ops.append(["update-2dicts", [["class_", None]], [["class", "n1"]]])
    ops.append(["update-dict+kw", [["x", False]], [["x_", "n2"]]])
    ops.append(["update-2dicts", [["x", None]], [["x_", ["H", "n3"]]]])
    ops.append(["update-empty"])
    return ops


OPS_FULL = mk_ops(NAMES, LIVE_VALUES)
OPS_RED = mk_ops(["x", "x_", "a_b", "class_"], ["v", True, ["H", "h"]])


def run_hist(hist):
    from htmltools import Tag
    t = None
    model = []
    for op in hist:
        k = op[0]
        if k == "new":
            t = Tag("div", *[to_dict(d) for d in op[1]], **to_dict(op[2]))
            if len(op) > 3:
                import copy as _copy
                t = _copy.copy(t) if op[3] == "copy" else Tag("section", t).tagify().children[0]
            model = model_call([], op[1], op[2])
        elif k == "update-dict":
            t.attrs.update(to_dict(op[1]))
            model_call(model, [op[1]], [])
        elif k == "update-kw":
            t.attrs.update(**to_dict(op[1]))
            model_call(model, [], op[1])
        elif k == "update-2dicts":
            t.attrs.update(to_dict(op[1]), to_dict(op[2]))
            model_call(model, [op[1], op[2]], [])
        elif k == "update-dict+kw":
            t.attrs.update(to_dict(op[1]), **to_dict(op[2]))
            model_call(model, [op[1]], op[2])
        elif k == "update-empty":
            t.attrs.update()
        elif k == "setitem":
            t.attrs[op[1]] = bv(op[2])
            model_call(model, [[[op[1], op[2]]]], [])
    return t, model


def step(hist):
    t, model = run_hist(hist)
    got = observed(t.attrs)
    viols = []
    if got != model:
        viols.append((f"history:{hist[-1][0]}", "attributes after the history differ from the model",
                      {"observed": got, "expected": model}))
    else:
        # rendering agrees with the stored attributes
        s = t.get_html_string()
        pos = [s.find(f' {n}="') for n, _, _ in got]
        if any(p < 0 for p in pos) or pos != sorted(pos):
            viols.append(("history:render-order", "rendered attributes are not in stored order", {"observed": s}))
    if type(t.attrs).__name__ != "TagAttrDict" and not viols:
        viols.append(("history:attrs-type", f"tag.attrs is a {type(t.attrs).__name__}, not the normalising attribute map", {}))
    key = None if viols else (hist[0][3] if len(hist[0]) > 3 else "",) + tuple(map(tuple, got))
    return {"key": key, "viol": viols, "nontrivial": len(hist) >= 3, "outcome": key}


ODD_NAMES = ["xlink:href", "xml:lang", "v-on:click", "x-bind.once", "@click", "2x", "aria-label", "data-a.b_c",
             "\u00e9", ":is", "_", "on_", "A_B", "x:y_", "viewBox", "viewbox", "data-Id", "data-id", "\u212a", "k", "K"]


def fn_odd_live(case):
    """unusual (but valid) attribute names through item assignment, update() and the tag helpers;
    the rendered tag shows them under the normalised name."""
    from htmltools import Tag
    raw, v = case
    viols = []
    name = norm_name(raw)
    nv = norm_value(v)
    for how in ("setitem", "update-dict", "update-kw", "ctor-dict", "tag-function"):
        try:
            if how == "setitem":
                t = Tag("div")
                t.attrs[raw] = bv(v)
            elif how == "update-dict":
                t = Tag("div")
                t.attrs.update({raw: bv(v)})
            elif how == "update-kw":
                t = Tag("div")
                t.attrs.update(**{raw: bv(v)})
            elif how == "ctor-dict":
                t = Tag("div", {raw: bv(v)})
            else:
                from htmltools import tags
                t = tags.span({raw: bv(v)}, "x")
        except Exception as e:
            viols.append((f"odd-name:{how}:raises", f"attribute name {raw!r}: {type(e).__name__}: {e}", {}))
            continue
        got = observed(t.attrs)
        exp = [] if nv is None else [[name, nv[0], nv[1]]]
        if got != exp:
            viols.append((f"odd-name:{how}", f"attribute {raw!r} stored differently from the model", {"observed": got, "expected": exp}))
        out = t.get_html_string()
        if nv is not None and f' {name}="' not in out:
            viols.append((f"odd-name:{how}:rendering", f"attribute {name!r} missing from the rendering", {"observed": out}))
    return (True, None, viols, 5)


def plan(tier):
    return plan0(tier) + plan_odd(tier)


def fn_mapping_args(case):
    """positional arguments that are mappings but not dicts (MappingProxyType, UserDict, ChainMap): whatever Tag() makes of
    them, consolidate_attrs() followed by Tag(name, attrs, *children) makes the same."""
    import collections
    import types
    from htmltools import Tag, consolidate_attrs
    kind, pairs, kw = case
    d = to_dict(pairs)
    viols = []

    def mk():
        return {"mappingproxy": types.MappingProxyType(dict(d)), "userdict": collections.UserDict(d),
                "chainmap": collections.ChainMap(dict(d)), "ordereddict": collections.OrderedDict(d)}[kind]

    def attempt(f):
        try:
            return ("ok", f())
        except TypeError:
            return ("TypeError", None)
    direct = attempt(lambda: Tag("div", "c1", mk(), "c2", **to_dict(kw)))
    def rebuilt_():
        a, c = consolidate_attrs("c1", mk(), "c2", **to_dict(kw))
        return Tag("div", a, *c)
    rebuilt = attempt(rebuilt_)
    if direct[0] != rebuilt[0] or (direct[0] == "ok" and not (direct[1] == rebuilt[1] and observed(direct[1].attrs) == observed(rebuilt[1].attrs))):
        viols.append((f"mapping-arg:{kind}", f"Tag('div', 'c1', <{kind}>, 'c2') and the same call via consolidate_attrs() disagree: "
                      f"{direct[0]} vs {rebuilt[0]}", {"direct": None if direct[1] is None else observed(direct[1].attrs),
                                                        "rebuilt": None if rebuilt[1] is None else observed(rebuilt[1].attrs)}))
    if kind == "ordereddict" and direct[0] == "ok":
        exp = model_call([], [pairs], kw)
        if observed(direct[1].attrs) != exp:
            viols.append(("mapping-arg:ordereddict", "a dict subclass is an attribute dict like any other", {"observed": observed(direct[1].attrs)}))
    return (True, (kind, direct[0]), viols, 2)


def plan_odd(tier):
    single = Map(Prod(Const(ODD_NAMES), Const(["v", True, None, ["H", "h"], 3])), lambda p: [list(p)])
    two = Map(Prod(Const(ODD_NAMES), Const(["v"]), Const(ODD_NAMES + ["x"]), Const(["w", ["H", "h"]])),
              lambda p: [[p[0], p[1]], [p[2], p[3]]])
    cs = Alt(Map(Alt(single, two), lambda d: ([d], [])), Map(Prod(single, single), lambda c: ([c[0], c[1]], [])),
             Map(single, lambda k: ([], k)))
    mp = Prod(Const(["mappingproxy", "userdict", "chainmap", "ordereddict"]),
              Const([[["class_", "a"]], [["x", "v"], ["x_", ["H", "h"]]], []]), Const([[], [["class_", "k"]]]))
    return [
        dict(kind="space", name="mapping-typed-positional-arguments", space=mp, fn=fn_mapping_args, execs=2,
             note="MappingProxyType / UserDict / ChainMap / OrderedDict as positional arguments: Tag() and consolidate_attrs()+Tag() agree"),
        dict(kind="space", name="unusual-attribute-names-calls", space=cs, fn=fn_call,
             note=f"constructor / consolidate_attrs calls over names {ODD_NAMES} (namespaces, framework directives, leading "
                  "digit, non-ASCII, lone underscore): every one is accepted and normalised by the same rule"),
        dict(kind="space", name="unusual-attribute-names-live", fn=fn_odd_live, execs=5,
             space=Prod(Const(ODD_NAMES), Const(["v", True, None, ["H", "h"], 3, ""])),
             note="the same names through attrs[name] = v, attrs.update(), Tag(...) and a tag function, and in the rendering"),
    ]


def plan0(tier):
    cs = call_space(tier)

    def ops_full(hist):
        return INITS if not hist else OPS_FULL

    def ops_red(hist):
        return INITS if not hist else OPS_RED
    out = [dict(kind="space", name="constructor-calls", space=cs, fn=fn_call,
                note=f"{cs.size} constructor argument lists")]
    if tier == "quick":
        out.append(dict(kind="bfs", name="update-histories", init=[[]], ops=ops_full, step=step, depth=3,
                        note=f"{len(INITS)} constructed states, <= 2 of {len(OPS_FULL)} update/assignment operations"))
        out.append(dict(kind="bfs", name="update-histories-reduced", init=[[]], ops=ops_red, step=step, depth=4,
                        note=f"<= 3 of {len(OPS_RED)} operations (reduced alphabet)"))
    else:
        out.append(dict(kind="bfs", name="update-histories", init=[[]], ops=ops_full, step=step, depth=4,
                        note=f"{len(INITS)} constructed states, <= 3 of {len(OPS_FULL)} operations"))
        out.append(dict(kind="bfs", name="update-histories-reduced", init=[[]], ops=ops_red, step=step, depth=5,
                        note=f"<= 4 of {len(OPS_RED)} operations (reduced alphabet)"))
    return out
