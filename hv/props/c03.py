"""C03 - attribute values are inert, single-line, and decode to the original.

E1: every Unicode scalar value and every short string over the metacharacter alphabet as
an attribute value, for every way of supplying / merging it.  Oracle: the opening tag is
prefix + E + suffix (prefix/suffix from the same construction with a placeholder) with
valid_escape(E, s, {& < > " ' CR LF}) (R1); the strict tokenizer R2 sees exactly the
expected attribute names; the opening tag contains no CR/LF.
"""
from __future__ import annotations

from ..ref.escape import ATTR_MUST, valid_escape
from ..ref.tokens import TokenError, tokenize
from ..space import Const, Prod, Seq
from .c02 import CodePoints

ID = "C03"
LEVEL = "model_checking"
RULE = ("(a) every Unicode scalar value as a one-character attribute value through each way of "
        "supplying it (keyword, positional dict, update, item assignment, same-name merges with "
        "plain / HTML() / number values in both orders, add_class/add_style onto plain and "
        "HTML() values, each attribute position); (b) every string of length <= 3 (quick) / "
        "<= 5 (thorough) over {& < > \" ' ; # a LF CR space}; (c) True/None/False/number "
        "specials. Non-trivial = probe contains a character that must be escaped. Distinct by "
        "construction.")
ASSUMPTIONS = [
    "R1 valid_escape with the attribute set {& < > \" ' CR LF}",
    "HTML() parts used in merges are reference-free fixed strings, so the plain part is the "
    "region between the placeholder-derived prefix and suffix",
]

SIGMA = ["&", "<", ">", '"', "'", ";", "#", "a", "\n", "\r", " "]
PH = "PH"


def _ways():
    from htmltools import HTML, Tag, tags, svg
    g = lambda t: t.get_html_string()  # noqa: E731

    def kw(s):
        return g(Tag("div", title=s)), ["title"]

    def posdict(s):
        return g(Tag("div", {"title": s})), ["title"]

    def tagfn(s):
        return g(tags.a("x", href=s)), ["href"]

    def svgfn(s):
        return g(svg.circle(cx=s)), ["cx"]

    def update(s):
        t = Tag("div", title="old")
        t.attrs.update(title=s)
        return g(t), ["title"]

    def update_dict(s):
        t = Tag("div")
        t.attrs.update({"data_x": s})
        return g(t), ["data-x"]

    def setitem(s):
        t = Tag("div", id="i")
        t.attrs["title"] = s
        return g(t), ["id", "title"]

    def pos_only(s):
        return g(Tag("div", title=s)), ["title"]

    def pos_first(s):
        return g(Tag("div", {"title": s, "a": "1", "b": "2"})), ["title", "a", "b"]

    def pos_middle(s):
        return g(Tag("div", "child", a="1", title=s, b="2")), ["a", "title", "b"]

    def pos_last(s):
        return g(Tag("span", Tag("b"), "t", a="1", b="2", title=s, _add_ws=False)), ["a", "b", "title"]

    def void_tag(s):
        return g(Tag("img", alt=s)), ["alt"]

    def merge_pp_first(s):
        return g(Tag("div", {"class": s}, class_="k")), ["class"]

    def merge_pp_second(s):
        return g(Tag("div", {"class": "k"}, class_=s)), ["class"]

    def merge_p_html(s):
        return g(Tag("div", {"class": s}, class_=HTML("h"))), ["class"]

    def merge_html_p(s):
        return g(Tag("div", {"class": HTML("h")}, class_=s)), ["class"]

    def merge_p_num(s):
        return g(Tag("div", {"class": s}, class_=5)), ["class"]

    def merge_three(s):
        return g(Tag("div", {"class": s}, {"class": HTML("h")}, class_="k")), ["class"]

    def merge_three_mid(s):
        return g(Tag("div", {"class": HTML("h")}, {"class": s}, class_=HTML("g"))), ["class"]

    def merge_update(s):
        t = Tag("div")
        t.attrs.update({"x": s}, {"x": HTML("h")}, x_="k")
        return g(t), ["x"]

    def add_class_append(s):
        return g(Tag("div", class_="k").add_class(s)), ["class"]

    def add_class_prepend(s):
        return g(Tag("div", class_="k").add_class(s, prepend=True)), ["class"]

    def add_class_fresh(s):
        return g(Tag("div").add_class(s)), ["class"]

    def add_class_onto_html(s):
        return g(Tag("div", class_=HTML("h")).add_class(s)), ["class"]

    def add_class_prepend_html(s):
        return g(Tag("div", class_=HTML("h")).add_class(s, prepend=True)), ["class"]

    def add_html_class_onto_plain(s):
        return g(Tag("div", class_=s).add_class(HTML("h"))), ["class"]

    def add_style(s):
        return g(Tag("div").add_style(s + ";")), ["style"]

    def add_style_onto_html(s):
        return g(Tag("div", style=HTML("a:b;")).add_style(s + ";")), ["style"]

    def add_style_prepend(s):
        return g(Tag("div", style="a:b;").add_style(s + ";", prepend=True)), ["style"]

    def add_html_style_onto_plain(s):
        return g(Tag("div", style=s + ";").add_style(HTML("c:d;"))), ["style"]

    def via_str(s):
        return str(Tag("div", title=s)), ["title"]

    def on_script_tag(s):
        return g(Tag("script", src=s)), ["src"]

    def on_style_tag(s):
        return g(Tag("style", "p{}", {"media": s})), ["media"]

    def on_script_add_class(s):
        return g(Tag("script", "x").add_class(s)), ["class"]

    def after_same_string_as_text(s):
        # history: the same string was escaped as a text child first
        Tag("p", s, Tag("b")).get_html_string()
        Tag("p", s).get_html_string()
        return g(Tag("div", title=s)), ["title"]

    def after_same_string_in_html_merge(s):
        Tag("div", {"class": HTML("h")}, class_=s).get_html_string()
        return g(Tag("div", {"title": s})), ["title"]

    def rendered_twice(s):
        t = Tag("div", title=s)
        g(t)
        return g(t), ["title"]

    def after_remove_class(s):
        # remove_class rewrites the class value; what is left must still be escaped when rendered
        if s == "" or any(c.isspace() for c in s):
            return g(Tag("div", class_=s)), ["class"]
        return g(Tag("div", class_=s + " zz").remove_class("zz")), ["class"]

    def after_remove_class_first(s):
        if s == "" or any(c.isspace() for c in s):
            return g(Tag("div", class_=s)), ["class"]
        return g(Tag("div", class_="zz " + s).remove_class("zz")), ["class"]

    def via_consolidate_attrs(s):
        from htmltools import consolidate_attrs
        attrs, kids = consolidate_attrs({"class": s}, "kid", class_=HTML("h"))
        return g(Tag("div", attrs, *kids)), ["class"]

    def via_consolidate_plain(s):
        from htmltools import consolidate_attrs
        attrs, kids = consolidate_attrs({"title": s}, id="i")
        return g(Tag("div", attrs, *kids)), ["title", "id"]

    def via_other_tags_attrs(s):
        other = Tag("i", title=s)
        return g(Tag("div", other.attrs, class_="c")), ["title", "class"]

    def url_attr_href(s):
        return g(Tag("a", href=s)), ["href"]

    def url_attr_src(s):
        return g(Tag("img", src=s)), ["src"]

    def url_attr_action(s):
        return g(Tag("form", action=s)), ["action"]

    def renamed_from_script(s):
        t = Tag("script", data_x=s)
        t.name = "div"
        return g(t), ["data-x"]

    def indented(s):
        return Tag("div", Tag("p", "x", title=s)).get_html_string(1, "\r\n"), ["title"]

    fs = (kw, posdict, tagfn, svgfn, update, update_dict, setitem, pos_only, pos_first,
          pos_middle, pos_last, void_tag, merge_pp_first, merge_pp_second, merge_p_html,
          merge_html_p, merge_p_num, merge_three, merge_three_mid, merge_update,
          add_class_append, add_class_prepend, add_class_fresh, add_class_onto_html,
          add_class_prepend_html, add_html_class_onto_plain, add_style, add_style_onto_html,
          add_style_prepend, add_html_style_onto_plain, via_str, indented, on_script_tag,
          on_style_tag, on_script_add_class, after_same_string_as_text,
          after_same_string_in_html_merge, rendered_twice, renamed_from_script, after_remove_class,
          after_remove_class_first, via_consolidate_attrs, via_consolidate_plain, via_other_tags_attrs,
          url_attr_href, url_attr_src, url_attr_action)
    return {f.__name__: f for f in fs}


CORE = ("kw", "merge_p_html", "merge_html_p", "add_class_onto_html", "add_html_style_onto_plain",
        "on_script_tag", "after_same_string_as_text")
_CACHE = {}


def _frames(which):
    if which not in _CACHE:
        if not _CACHE:
            # the very first escaping done by this process is a TEXT escape (exposes state that is
            # initialised lazily from whichever escape table is used first)
            from htmltools import Tag
            Tag("p", "x & y").get_html_string()
        table = _ways()
        if which == "core":
            table = {k: v for k, v in table.items() if k in CORE}
        fr = {}
        for name, f in table.items():
            out, names = f(PH)
            assert out.count(PH) == 1, (name, out)
            pre, suf = out.split(PH)
            fr[name] = (f, pre, suf, names)
        _CACHE[which] = fr
    return _CACHE[which]


def check_probe(s, frames, viols, tokens=True, arg=None, keyprefix=""):
    """s = the characters the value consists of; arg = the object actually supplied (default s)."""
    # history first: the very first time this process escapes s, it is as a TEXT child
    # (a result cache keyed on the string alone would now hold the text-escaped form)
    from htmltools import Tag
    if arg is None:
        arg = s
    if s != PH:
        Tag("p", arg, Tag("b")).get_html_string()
    for name, (f, pre, suf, names) in frames.items():
        name = keyprefix + name
        out, _ = f(arg)
        if not (out.startswith(pre) and out.endswith(suf) and len(out) >= len(pre) + len(suf)):
            viols.append((f"way={name}:frame",
                          f"attribute value {s!r} changed the surrounding markup ({name})",
                          {"probe": s, "observed": out, "prefix": pre, "suffix": suf}))
            continue
        E = out[len(pre):len(out) - len(suf)]
        why = valid_escape(E, s, ATTR_MUST)
        if why:
            viols.append((f"way={name}:escape",
                          f"attribute value {s!r} emitted as {E!r} ({name}): {why}",
                          {"probe": s, "observed": out}))
            continue
        if tokens:
            try:
                toks = tokenize(out)
            except TokenError as e:
                viols.append((f"way={name}:tokenize", f"output does not tokenize: {e}",
                              {"probe": s, "observed": out}))
                continue
            opens = [t for t in toks if t[0] in ("open", "void")]
            first = next((t for t in opens if t[2]), None)
            got = [k for k, _ in first[2]] if first else None
            if got != names:
                viols.append((f"way={name}:attr-names",
                              f"opening tag carries attributes {got}, expected {names}",
                              {"probe": s, "observed": out}))
            optag_end = out.find(">", len(pre) + len(E))
            if "\n" in out[len(pre):optag_end] or "\r" in out[len(pre):optag_end]:
                viols.append((f"way={name}:multiline", "opening tag broken across lines",
                              {"probe": s, "observed": out}))


def fn_codepoint(cp):
    s = chr(cp)
    viols = []
    check_probe(s, _frames("all"), viols, tokens=False)
    return (s in ATTR_MUST, s if s in ATTR_MUST else None, viols)


def fn_codepoint_core(cp):
    s = chr(cp)
    viols = []
    check_probe(s, _frames("core"), viols, tokens=False)
    return (s in ATTR_MUST, s if s in ATTR_MUST else None, viols)


def fn_string(chars):
    s = "".join(chars)
    viols = []
    check_probe(s, _frames("all"), viols, tokens=True)
    return (any(c in ATTR_MUST for c in s), None, viols)


# ------------------------------------------------------------ str subclasses
class LoudStr(str):
    """a str subclass whose str()/format()/repr() are NOT its characters."""

    def __str__(self):
        return 'STR" data-injected="1'

    def __format__(self, spec):
        return 'FMT" data-injected="1'

    def __repr__(self):
        return "REPR"


class TaggedStr(str):
    """a harmless str subclass (extra attribute only)."""
    origin = "user"


def mk_enum_member(s):
    import enum
    return enum.Enum("Color", {"MEMBER": s}, type=str).MEMBER


SUBCLASS_MAKERS = {"loud": LoudStr, "tagged": TaggedStr, "str-enum-mixin": mk_enum_member}


def fn_subclass(case):
    kind, chars = case
    s = "".join(chars)
    viols = []
    check_probe(s, _frames("all"), viols, tokens=True, arg=SUBCLASS_MAKERS[kind](s), keyprefix=f"strsub={kind}:")
    return (True, None, viols)


SPECIALS = [["true"], ["none"], ["false"], ["num", 5], ["num", 2.5], ["num", 0], ["num", 0.0], ["num", -1],
            ["num-merge"], ["num-update"],
            ["merge-none"], ["merge-true"], ["update-none"]]


def fn_special(case):
    from htmltools import HTML, Tag
    k = case[0]
    viols = []

    def expect(tag, exp):
        got = tag.get_html_string()
        if got != exp:
            viols.append((f"special:{k}", f"special attribute value {case}: got {got!r}",
                          {"observed": got, "expected": exp}))
    if k == "true":
        expect(Tag("div", hidden=True, id="i"), '<div hidden="" id="i"></div>')
    elif k == "none":
        expect(Tag("div", {"title": None}, id="i"), '<div id="i"></div>')
    elif k == "false":
        expect(Tag("div", title=False, id="i"), '<div id="i"></div>')
    elif k == "num":
        expect(Tag("div", width=case[1]), f'<div width="{case[1]}"></div>')
    elif k == "num-merge":
        expect(Tag("div", {"x": 5}, {"x_": 0}, x=7), '<div x="5 0 7"></div>')
    elif k == "num-update":
        t = Tag("div", k="old")
        t.attrs["k"] = 0
        expect(t, '<div k="0"></div>')
    elif k == "merge-none":
        expect(Tag("div", {"class": None}, class_="k"), '<div class="k"></div>')
    elif k == "merge-true":
        expect(Tag("div", {"class": True}, class_="k"), '<div class=" k"></div>')
    elif k == "update-none":
        t = Tag("div", id="i")
        t.attrs.update(title=None)
        expect(t, '<div id="i"></div>')
    return (True, k, viols)


def plan(tier):
    nways = len(_ways())
    k = 4 if tier == "quick" else 5
    if tier == "quick":
        first = dict(kind="space", name="every-code-point-core", space=CodePoints(),
                     fn=fn_codepoint_core, execs=len(CORE),
                     note=f"all 1,112,064 scalar values x ways {CORE}")
    else:
        first = dict(kind="space", name="every-code-point", space=CodePoints(), fn=fn_codepoint,
                     execs=nways, note=f"all 1,112,064 scalar values x {nways} ways")
    return [
        first,
        dict(kind="space", name="short-strings", space=Seq(Const(SIGMA), 0, k), fn=fn_string,
             execs=nways, note=f"all strings of length <= {k} over {SIGMA!r} x {nways} ways, tokenized"),
        dict(kind="space", name="str-subclass-values", fn=fn_subclass,
             space=Prod(Const(list(SUBCLASS_MAKERS)), Seq(Const(["r", "&", '"', "\n", " "]), 0, 2 if tier == "quick" else 3)),
             note="attribute values that are instances of str subclasses (overridden __str__/__format__, a plain "
                  "subclass, a (str, Enum) member): rendered as their characters, through every way"),
        dict(kind="space", name="specials", space=Const(SPECIALS), fn=fn_special,
             note="True -> empty value, None/False -> absent, numbers -> text"),
    ]
