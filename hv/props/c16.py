"""C16 - class/style helpers and css() act as token-set and declaration algebra.

E2 (BFS) over add_class / remove_class / has_class histories and add_style histories on real
tags, against the token-list model R7; E1 over css() keyword sets.
"""
from __future__ import annotations

import itertools

from ..space import Const, Prod

ID = "C16"
LEVEL = "model_checking"
RULE = ("BFS over histories of <= 5 (quick) / <= 6 (thorough) of add_class(t, prepend) / remove_class(t) "
        "/ has_class(t) for t in {foo, foobar, foo-x, bar} from 7 initial class values (absent, odd "
        "whitespace, duplicates, tab/newline separated, HTML()); BFS over add_style histories of <= 4 "
        "(quick) / <= 5 over 3 valid and 3 invalid declarations from 2 initial values; css(): every "
        "ordered keyword selection of size <= 3 over 6 names (two of them normalising to the same property) x 11 values x 2 separators. Non-trivial = "
        "history with >= 2 operations of which >= 1 changes the state or must fail.")
ASSUMPTIONS = [
    "R7 compares whitespace-token lists (class) and ';'-separated declaration lists (style), not raw "
    "strings; add_class of a token already present may append a duplicate or leave the list "
    "unchanged (both make has_class true without disturbing other tokens)",
    "tokens passed to the class methods are whitespace-free, as the statement says",
]

TOKENS = ["foo", "foobar", "foo-x", "bar"]
CLASS_INITS = [None, "foo", "foo bar", " foo  foobar ", "bar foo bar", "foo\tbar\nfoo-x", ["H", "foo"],
               ["H", "a&amp;b foo"]]
STYLE_OK = ["a:b;", "c:d;", ["H", "e:f;"]]
STYLE_BAD = ["a:b", "a:b; ", "", ["H", "g:h"], ["H", "g:h; "]]
STYLE_INITS = [None, "x:y;"]


def bv(v):
    from htmltools import HTML
    return HTML(v[1]) if isinstance(v, list) else v


def class_ops(hist):
    if not hist:
        return [["init", c] for c in CLASS_INITS] + [["init", c, how] for c in CLASS_INITS[:5] for how in ("copy", "tagify")]
    ops = []
    for t in TOKENS:
        ops += [["add", t, False], ["add", t, True], ["remove", t], ["has", t]]
    ops += [["remove", ""], ["has", ""]]          # the empty token: never a member, removing it changes nothing
    ops += [["remove", " foo "], ["remove", "bar\n"]]    # a token given with surrounding whitespace is that token
    ops += [["add", "foo-x", "default"]]             # prepend left out: appended
    init = hist[0][1]
    if not (isinstance(init, str) and ("\n" in init or "\r" in init)):
        # HTML() tokens are not added onto a plain value whose tokens are separated by CR/LF: merging
        # plain text into trusted markup must escape CR/LF (C03), after which whitespace-token
        # membership is computed on markup - the statement is silent on that corner (DESIGN 5.2)
        ops += [["add", ["H", "foo-x"], False], ["add", ["H", "bar"], True]]
    return ops


import re as _re
_CLASS_RE = _re.compile(r' class="([^"]*)"')


def tokens_of(tag):
    v = tag.attrs.get("class")
    return None if v is None else str(v).split()


def class_step(hist):
    from htmltools import Tag
    tag = None
    model = None       # None = attribute absent, else list of tokens
    trusted = False    # the value is (or has been merged into) HTML(): its tokens are markup, written verbatim
    viols = []
    changed = 0
    for k, op in enumerate(hist):
        last = k == len(hist) - 1
        v = []
        if op[0] == "init":
            tag = Tag("div", "c", id="i") if op[1] is None else Tag("div", "c", {"class": bv(op[1])}, id="i")
            if len(op) > 2:
                import copy as _copy
                tag = _copy.copy(tag) if op[2] == "copy" else tag.tagify()
            model = None if op[1] is None else (op[1][1] if isinstance(op[1], list) else op[1]).split()
            trusted = isinstance(op[1], list)
        elif op[0] == "add":
            t, prepend = op[1], op[2]
            old = list(model or [])
            tval = bv(t)
            trusted = trusted or isinstance(t, list)
            t = t[1] if isinstance(t, list) else t
            if prepend == "default":
                r = tag.add_class(tval)
                prepend = False
            else:
                r = tag.add_class(tval, prepend=prepend)
            if r is not tag:
                v.append(("add_class:return", "add_class did not return the tag itself", {}))
            got = tokens_of(tag)
            want = ([t] + old) if prepend else (old + [t])
            if got == want:
                model = want
                changed += 1
            elif old and got == old and (old[0] == t if prepend else old[-1] == t):
                model = old     # token already in the requested position: leaving the list unchanged is fine
            else:
                v.append(("add_class:tokens", f"class tokens after add_class({t!r}, prepend={prepend})",
                          {"observed": got, "expected": want}))
            if not tag.has_class(t):
                v.append(("add_class:has_class", f"has_class({t!r}) is False right after add_class", {}))
        elif op[0] == "remove":
            t = op[1]
            old = model
            r = tag.remove_class(t)
            t = t.strip()
            if r is not tag:
                v.append(("remove_class:return", "remove_class did not return the tag itself", {}))
            want = None if old is None else ([x for x in old if x != t] or None)
            got = tokens_of(tag)
            if got != want or (want is None and "class" in tag.attrs):
                v.append(("remove_class:tokens", f"class tokens after remove_class({t!r})",
                          {"observed": got, "expected": want, "before": old}))
            else:
                if want != old:
                    changed += 1
                model = want
            if tag.has_class(t):
                v.append(("remove_class:has_class", f"has_class({t!r}) still True after remove_class", {}))
        elif op[0] == "has":
            t = op[1]
            got = tag.has_class(t)
            want = model is not None and t in model
            if got is not want:
                v.append(("has_class", f"has_class({t!r}) = {got!r} with tokens {model}", {}))
        # other attributes and children never disturbed
        if tag.attrs.get("id") != "i" or list(tag.children) != ["c"]:
            v.append(("class-op:collateral", "a class operation changed something else", {}))
        # the rendering (direct entry point, same object every time) reflects the current class value
        out = tag.get_html_string()
        m = _CLASS_RE.search(out)
        shown = None if m is None else __import__("html").unescape(m.group(1)).split()
        denoted = model if (model is None or not trusted) else [__import__("html").unescape(x) for x in model]
        if model is None:
            trusted = False
        if shown != denoted and not v:
            v.append(("class-op:stale-rendering", f"get_html_string() after {op} shows class tokens {shown}, "
                      f"the value held denotes {denoted} (HTML() values are written verbatim, plain ones escaped)", {"observed": out}))
        if v:
            if last:
                viols = v
            else:
                return {"key": None}
    # the canonical key includes the TYPE of the stored value (str / HTML): states that differ only
    # in that do not have the same futures (e.g. split()/join() behave differently), so they must not
    # be merged
    key = None if viols else ("cls", type(tag.attrs.get("class")).__name__, type(tag.attrs).__name__,
                              hist[0][2] if len(hist[0]) > 2 else "", trusted, tuple(model) if model is not None else None)
    if model is not None and len(model) > 7:
        key = None
    return {"key": key, "viol": viols, "nontrivial": len(hist) >= 3 and changed >= 1, "outcome": key}


# -------------------------------------------------------------------- styles
def style_ops(hist):
    if not hist:
        return [["init", s] for s in STYLE_INITS] + [["init", s, how] for s in STYLE_INITS for how in ("copy", "tagify")]
    ops = []
    for s in STYLE_OK + STYLE_BAD:
        ops += [["add", s, False], ["add", s, True]]
    ops += [["add", "k:l;", "default"], ["add", "bad", "default"]]      # prepend left out: appended
    return ops


def decls(v):
    return [d.strip() for d in str(v).split(";") if d.strip()]


def style_step(hist):
    from htmltools import Tag
    tag = None
    model = None
    viols = []
    eff = 0
    for k, op in enumerate(hist):
        last = k == len(hist) - 1
        v = []
        if op[0] == "init":
            tag = Tag("div", "c", id="i") if op[1] is None else Tag("div", "c", id="i", style=op[1])
            if len(op) > 2:
                import copy as _copy
                tag = _copy.copy(tag) if op[2] == "copy" else tag.tagify()
            model = None if op[1] is None else decls(op[1])
        else:
            s, prepend = op[1], op[2]
            text = s[1] if isinstance(s, list) else s
            before = (dict(tag.attrs), [type(x) for x in tag.attrs.values()])
            bad = not text.endswith(";")
            try:
                if prepend == "default":
                    r = tag.add_style(bv(s))
                else:
                    r = tag.add_style(bv(s), prepend=prepend)
                err = None
                prepend = False if prepend == "default" else prepend
            except ValueError as e:
                r, err = None, e
            if bad:
                eff += 1
                if err is None:
                    v.append(("add_style:accepts-bad", f"add_style({text!r}) accepted a declaration without trailing ';'", {}))
                if (dict(tag.attrs), [type(x) for x in tag.attrs.values()]) != before:
                    v.append(("add_style:not-atomic", "rejected add_style modified the tag", {}))
            else:
                if err is not None:
                    v.append(("add_style:rejects-good", f"add_style({text!r}) raised {err!r}", {}))
                else:
                    if r is not tag:
                        v.append(("add_style:return", "add_style did not return the tag itself", {}))
                    old = list(model or [])
                    want = (decls(text) + old) if prepend else (old + decls(text))
                    got = decls(tag.attrs.get("style", ""))
                    if got != want:
                        v.append(("add_style:declarations", f"style after add_style({text!r}, prepend={prepend})",
                                  {"observed": got, "expected": want}))
                    else:
                        model = want
                        eff += 1
                    if not str(tag.attrs.get("style", "")).rstrip().endswith(";"):
                        v.append(("add_style:no-semicolon", "style value does not end in ';'", {}))
            if tag.attrs.get("id") != "i":
                v.append(("add_style:collateral", "add_style changed another attribute", {}))
        if v:
            if last:
                viols = v
            else:
                return {"key": None}
    key = None if viols else ("sty", type(tag.attrs.get("style")).__name__, type(tag.attrs).__name__,
                              hist[0][2] if len(hist[0]) > 2 else "", tuple(model) if model is not None else None)
    return {"key": key, "viol": viols, "nontrivial": len(hist) >= 3 and eff >= 1, "outcome": key}


# ----------------------------------------------------------------------- css
CSS_NAMES = ["font_size", "backgroundColor", "margin_TOP", "x", "X", "fontSize"]
CSS_VALUES = ["1px", 3, None, "", "Red #FFF", 0, ["H", "red blue"], 0.0, 1, 1.0, True, "url(data:image/png;base64,AA;b)"]


def ref_css_name(k):
    out = []
    for ch in k:
        if ch == "_":
            out.append("-")
        elif ch.isupper():
            out.append("-" + ch.lower())
        else:
            out.append(ch)
    return "".join(out)


def css_cases():
    cases = []
    for n in range(0, 4):
        for names in itertools.permutations(CSS_NAMES, n):
            for vals in itertools.product(CSS_VALUES if n < 3 else CSS_VALUES[:6], repeat=n):
                for sep in ("", "\n"):
                    cases.append([list(names), list(vals), sep])
    return cases


def fn_css(case):
    from htmltools import Tag, css
    names, vals, sep = case
    viols = []
    kw = dict(zip(names, [bv(v) for v in vals]))     # ["H", text] -> HTML(text): its text, like any string
    got = css(collapse_=sep, **kw) if sep != "" else css(**kw)
    exp = "".join(ref_css_name(n) + ":" + (v[1] if isinstance(v, list) else str(v)) + ";" + sep
                  for n, v in zip(names, vals) if v is not None)
    exp = exp if exp != "" else None
    if got != exp:
        viols.append(("css:output", f"css({kw!r}, collapse_={sep!r})", {"observed": got, "expected": exp}))
    if sep == "" and got is not None:
        try:
            t = Tag("div").add_style(got)
            if t.attrs.get("style") != got:
                viols.append(("css:add_style", "add_style(css(...)) stored something else", {}))
        except ValueError:
            viols.append(("css:add_style-rejects", "add_style rejected css() output", {"css": got}))
    return (sum(v is not None for v in vals) >= 2, exp, viols, 2)


def plan(tier):
    d1 = 6 if tier == "quick" else 7
    d2 = 5 if tier == "quick" else 6
    return [
        dict(kind="bfs", name="class-histories", init=[[]], ops=class_ops, step=class_step, depth=d1,
             note=f"initial value + <= {d1-1} class operations over tokens {TOKENS}"),
        dict(kind="bfs", name="style-histories", init=[[]], ops=style_ops, step=style_step, depth=d2,
             note=f"initial value + <= {d2-1} add_style operations (valid and invalid declarations)"),
        dict(kind="space", name="css", space=Const(css_cases()), fn=fn_css,
             note="every ordered selection of <= 3 of 5 keyword names x 4 values x 2 separators"),
    ]
