"""C14 - child lists hold only normalised nodes after any sequence of operations.

E2: explicit-state BFS over operation histories on real TagList / Tag objects, in
lock-step with the reference flattening model R5 (written from the statement).
"""
from __future__ import annotations

import numbers

from ..spec import build, B, I, T, H, R, M
from ..space import Const, Prod

ID = "C14"
LEVEL = "model_checking"
RULE = ("BFS over histories of child operations (construct, append, append(x,y), extend, "
        "insert, +, reflected +, +=, slicing, *, reflected *, *=) on real TagList and Tag "
        "objects; after every transition the real child list is compared element-wise "
        "(type and identity/value) with the reference flattening model; states are "
        "de-duplicated by a canonical key of (receiver kind, child list); non-trivial = "
        "history with >= 2 operations of which >= 1 changes the list or must fail")
ASSUMPTIONS = [
    "reference model R5 in this file: depth-first flattening of list/tuple/TagList, None "
    "dropped, numbers -> str(), strings (str and HTML) kept whole, other values must be tag nodes",
    "for + / reflected + / += / extend with a NON-iterable operand (Tag, dependency, number, "
    "None) the statement allows 'appended whole' or 'TypeError, list unchanged'; both accepted",
    "dict/set are used as child values (append/insert/constructor/nested) but not as the "
    "iterable operand of extend/+ (they are iterables of their keys; statement silent)",
]

# ------------------------------------------------------------------ alphabets
DEP = ["D", "dep", "1.0", {}]
VALID_ARGS = [
    T("s"), T(""), ["N", 1], ["N", 2.5], ["NS", "True"], ["NONE"], H("<b>"),
    I([T("k")]), DEP, R("<u>r</u>"), ["X", T("t")],
    ["PY", []], ["PY", [T("a"), ["PY", [["N", 1], ["NONE"], ["TU", [T("b")]]]]]],
    ["L", [T("x"), ["N", 2]]], ["TU", [T("t"), ["N", 3]]],
    ["DUP", [T("d"), ["N", 6]]], ["NS", "-0.0"], ["N", 1.0], ["N", 0.0],
    ["NT", [T("n1"), ["N", 8]]], ["LSUB", [T("ls"), ["NONE"]]], ["TLSUB", [T("tls"), ["N", 9]]], ["TS", "subtext"],
    ["NS", "floatsub-repr"], ["NS", "intenum-tagify"],
]
INVALID_ARGS = [
    ["OBJ"], ["DICT"], ["SET"], ["BYTES"],
    ["PY", [T("ok"), ["OBJ"]]], ["PY", [T("ok"), ["PY", [T("k2"), ["TU", [["OBJ"]]]]]]],
    ["TU", [["DICT"], T("late")]], ["FRAC"], ["DEC"], ["PY", [T("ok"), ["FRAC"]]],
    ["NOTAG"], ["NOREPR"], ["FALSY", "bytes0"], ["PY", [["FALSY", "dict0"], T("after-falsy")]], ["FALSY", "dec0"],
    ["PY", [T("ok"), ["FALSY", "set0"]]], ["FALSY", "complex0"], ["TU", [["FALSY", "frac0"]]], ["FALSY", "bytearray0"],
]
RED_VALID = [T("s"), ["N", 1], ["NONE"], H("<b>"), I([T("k")]),
             ["PY", [T("a"), ["PY", [["N", 1], ["NONE"], ["TU", [T("b")]]]]]],
             ["L", [T("x"), ["N", 2]]]]
RED_INVALID = [["OBJ"], ["PY", [T("ok"), ["PY", [T("k2"), ["TU", [["OBJ"]]]]]]]]

ITERABLE_KINDS = ("PY", "TU", "L", "GEN", "NT", "LSUB", "TLSUB")


def mk_ops(valid, invalid, full):
    ops = []
    args = valid + invalid
    for a in args:
        ops.append(["append", a])
    ops.append(["append2", valid[0], valid[2 if len(valid) > 2 else 0]])
    ops.append(["append2", valid[0], invalid[0]])
    ops.append(["append2", invalid[0], valid[0]])
    # extend / + operands: iterables, strings, and non-iterables (outcome choice)
    operands = [a for a in args if a[0] not in ("DICT", "SET", "BYTES", "FALSY")]
    for a in operands:
        ops.append(["extend", a])
    ops.append(["extend", ["GEN", [T("g"), ["N", 4], ["PY", [["NONE"], T("h")]]]]])
    ops.append(["extend", ["GEN", [T("g"), ["OBJ"]]]])
    # a lazy iterable that BUILDS tags (with children of their own) while it is being consumed
    ops.append(["extend", ["GEN", [I([T("ga")]), I([T("gb"), I([T("gc")])]), T("gt")]]])
    ops.append(["iadd", ["GEN", [I([T("ia")]), I([T("ib")])]]])
    for a in operands:
        ops.append(["add", a])
        ops.append(["iadd", a])
    for a in operands:
        if a[0] in ("PY", "TU", "T"):
            ops.append(["radd", a])
    idx = [-1, 0, 1, 99] if full else [0, 1]
    ins_args = ([T("i"), ["N", 5], ["NONE"], H("<i>"), ["PY", [T("p"), ["PY", [T("q")]]]],
                 ["OBJ"], ["PY", [T("ok"), ["OBJ"]]]] if full
                else [T("i"), ["PY", [T("p"), ["PY", [T("q")]]]], ["OBJ"]])
    for i in idx:
        for a in ins_args:
            ops.append(["insert", i, a])
    ops += [["slice", 0, 2, 1], ["slice", 1, None, 1], ["slice", None, None, 2],
            ["mul", 2], ["rmul", 2], ["imul", 2]]
    if full:
        ops += [["mul", 0], ["slice", None, None, -1]]
    return ops


OPS_FULL = mk_ops(VALID_ARGS, INVALID_ARGS, True)
OPS_RED = mk_ops(RED_VALID, RED_INVALID, False)


def inits(valid, invalid):
    out = []
    for recv in ("TagList", "Tag"):
        out.append([["new", recv, []]])
        for a in valid + invalid:
            if recv == "Tag" and a[0] == "DICT":
                continue  # a dict argument of Tag() is an attribute dict, not a child
            out.append([["new", recv, [a]]])
        out.append([["new", recv, [valid[0], valid[-1], valid[2 if len(valid) > 2 else 0]]]])
        out.append([["new", recv, [valid[0], invalid[0]]]])
    return out


# ------------------------------------------------------------ reference model R5
class Reject(Exception):
    pass


def _is_node(v):
    from htmltools import HTML, MetadataNode
    if isinstance(v, (str, HTML, MetadataNode)):
        return True
    return callable(getattr(v, "tagify", None)) or callable(getattr(v, "_repr_html_", None))


def model_flatten(values):
    """values: iterable of argument values -> list of nodes (R5)."""
    from htmltools import TagList
    out = []

    def rec(v):
        if v is None:
            return
        if isinstance(v, (list, tuple, TagList)):
            for y in v:
                rec(y)
            return
        if isinstance(v, (bool, int, float)):
            out.append(str(v))
            return
        if _is_node(v):
            out.append(v)
            return
        raise Reject(type(v).__name__)

    for v in values:
        rec(v)
    return out


def describe(lst):
    out = []
    for x in lst:
        tn = type(x).__name__
        if tn in ("str", "HTML"):
            out.append(f"{tn}:{str(x)!r}")
        elif tn == "Tag":
            out.append(f"Tag:{x.name}")
        else:
            out.append(tn)
    return out


def leaf_values(v):
    """Child values inside an argument (for the is_tag_child clause)."""
    from htmltools import TagList
    yield v
    if isinstance(v, (list, tuple, TagList)):
        for y in v:
            yield from leaf_values(y)


# ------------------------------------------------------------------- execution
class State:
    def __init__(self, recv_kind, obj, model):
        self.kind = recv_kind      # "TagList" | "Tag"
        self.obj = obj             # real receiver
        self.model = model         # list of nodes

    def children(self):
        return self.obj if self.kind == "TagList" else self.obj.children


def apply_op(st: State | None, op):
    """Apply op to real object and model. Returns (state, viols, changed_or_failed)."""
    from htmltools import Tag, TagList, is_tag_child, is_tag_node
    viols = []
    name = op[0]
    opkey = name

    def V(key, msg, **detail):
        viols.append((key, msg, detail))

    # ---- build arguments once; the same objects go to the real call and the model
    if name == "new":
        recv_kind, aspecs = op[1], op[2]
        args = [build(a) for a in aspecs]
        try:
            exp = model_flatten(args)
        except Reject:
            exp = None
        try:
            obj = TagList(*args) if recv_kind == "TagList" else Tag("div", *args)
            real_err = None
        except TypeError as e:
            obj, real_err = None, e
        if exp is None:
            if real_err is None:
                V("op=new:accepts-invalid", "constructor accepted an argument of unsupported type",
                  observed=describe(obj if recv_kind == "TagList" else obj.children))
            return None, viols, True
        if real_err is not None:
            V("op=new:rejects-valid", f"constructor raised {real_err!r} for valid children")
            return None, viols, True
        st = State(recv_kind, obj, exp)
        check_state(st, viols, "new", args)
        # the new object owns its child list: changing a list / TagList it was built from afterwards
        # must not reach it
        for a in args:
            if isinstance(a, (list, TagList)) and not isinstance(a, tuple):
                try:
                    a.append("__probe__")
                except Exception:
                    continue
        if not same_list(list(st.children()), exp):
            V("op=new:aliases-argument", "the constructed object shares its child list with a list it was built from",
              observed=describe(st.children()))
            return None, viols, True
        return st, viols, bool(exp)

    before_real = list(st.children())
    before_ids = [id(x) for x in before_real]
    recv = st.children()
    choices = None     # list of acceptable outcomes: list (new content) or "ERR"
    newobj = False     # op yields a new list object which becomes the receiver
    accepted_values = []
    call = None

    if name in ("append", "append2"):
        args = [build(a) for a in op[1:]]
        accepted_values = args
        try:
            choices = [st.model + model_flatten(args)]
        except Reject:
            choices = ["ERR"]
        target = st.obj  # Tag.append / TagList.append
        call = lambda: target.append(*args)  # noqa: E731
    elif name == "extend":
        arg = build(op[1])
        choices = operand_choices(st.model, arg, op[1], left=False)
        accepted_values = operand_values(arg, op[1])
        target = st.obj
        call = lambda: target.extend(arg)  # noqa: E731
    elif name == "insert":
        i, arg = op[1], build(op[2])
        accepted_values = [arg]
        try:
            nodes = model_flatten([arg])
            m = list(st.model)
            m[i:i] = nodes
            choices = [m]
        except Reject:
            choices = ["ERR"]
        target = st.obj
        call = lambda: target.insert(i, arg)  # noqa: E731
    elif name in ("add", "radd", "iadd"):
        arg = build(op[1])
        choices = operand_choices(st.model, arg, op[1], left=(name == "radd"))
        accepted_values = operand_values(arg, op[1])
        if name == "add":
            newobj = True
            call = lambda: recv + arg  # noqa: E731
        elif name == "radd":
            newobj = True
            call = lambda: arg + recv  # noqa: E731
        else:
            def call():
                x = recv
                x += arg
                return x
            newobj = "inplace"
    elif name == "slice":
        sl = slice(op[1], op[2], op[3])
        choices = [st.model[sl]]
        newobj = True
        call = lambda: recv[sl]  # noqa: E731
    elif name in ("mul", "rmul", "imul"):
        n = op[1]
        choices = [st.model * n]
        if name == "mul":
            newobj = True
            call = lambda: recv * n  # noqa: E731
        elif name == "rmul":
            newobj = True
            call = lambda: n * recv  # noqa: E731
        else:
            def call():
                x = recv
                x *= n
                return x
            newobj = "inplace"
    else:
        raise ValueError(op)

    try:
        res = call()
        err = None
    except TypeError as e:
        res, err = None, e

    if err is not None:
        # failure atomicity
        now = list(st.children())
        if [id(x) for x in now] != before_ids:
            V(f"op={opkey}:not-atomic", f"{name} raised TypeError but the list changed",
              before=describe(before_real), after=describe(now))
        if "ERR" not in choices:
            V(f"op={opkey}:rejects-valid", f"{name} raised {err!r} for supported arguments",
              expected=describe(choices[0]))
            return None, viols, True
        return st, viols, True

    # success
    if newobj:
        if not isinstance(res, TagList):
            V(f"op={opkey}:result-type", f"{name} returned {type(res).__name__}, not a TagList")
            return None, viols, True
        if newobj is True and (res is recv or res.data is recv.data):
            V(f"op={opkey}:aliases-receiver", f"{name} returned its receiver (or shares its storage): a later "
              "mutation of either list would change the other")
            return None, viols, True
        if newobj is True:
            now = list(st.children())
            if [id(x) for x in now] != before_ids:
                V(f"op={opkey}:receiver-changed", f"{name} modified its receiver",
                  before=describe(before_real), after=describe(now))
        got = list(res)
    else:
        got = list(st.children())

    ok = [c for c in choices if c != "ERR" and same_list(got, c)]
    if not ok:
        if choices == ["ERR"]:
            V(f"op={opkey}:accepts-invalid",
              f"{name} accepted an argument of unsupported type", observed=describe(got))
        else:
            V(f"op={opkey}:wrong-children",
              f"children after {name} are not the flattening of the arguments",
              observed=describe(got), expected=describe([c for c in choices if c != 'ERR'][0]))
        return None, viols, True

    if newobj:
        if st.kind == "Tag":
            if newobj is True:
                st.obj.children = res
            elif res is not st.obj.children:
                st.obj.children = res
        else:
            st = State("TagList", res, ok[0])
    changed = not same_list(before_real, ok[0])
    new_model = [r if isinstance(m, GenElem) else m for r, m in zip(got, ok[0])]
    st = State(st.kind, st.obj, new_model)
    check_state(st, viols, opkey, accepted_values)
    return st, viols, changed


def operand_choices(model, arg, aspec, left):
    """Acceptable outcomes of extend / + / += / reflected + with operand arg."""
    from htmltools import HTML, TagList
    if isinstance(arg, (str, HTML)):
        new = [arg]                       # strings kept whole
        return [(new + model) if left else (model + new)]
    if isinstance(arg, (list, tuple, TagList)) or aspec[0] == "GEN":
        vals = [build(c) for c in aspec[1]] if aspec[0] == "GEN" else None
        try:
            # a generator can be consumed only once: model from an equal, separately built one
            new = model_flatten(vals if vals is not None else arg)
        except Reject:
            return ["ERR"]
        if vals is not None:
            # generator elements are fresh objects on both sides: compare by description
            new = [GenElem(v) if not isinstance(v, str) else v for v in new]
        return [(new + model) if left else (model + new)]
    # non-iterable operand: appended whole, or TypeError with the list unchanged
    try:
        new = model_flatten([arg])
    except Reject:
        return ["ERR"]
    return [(new + model) if left else (model + new), "ERR"]


class GenElem:
    """placeholder for an object produced by a generator (identity unknowable)."""

    def __init__(self, v):
        self.v = v


def operand_values(arg, aspec):
    if aspec[0] == "GEN":
        return []
    from htmltools import HTML, TagList
    if isinstance(arg, (list, tuple, TagList)):
        return list(arg)
    return [arg]


def check_state(st, viols, opkey, accepted_values):
    from htmltools import is_tag_child, is_tag_node
    for x in st.children():
        if not is_tag_node(x):
            viols.append((f"op={opkey}:stored-non-node",
                          f"stored element of type {type(x).__name__} is not a tag node",
                          {"children": describe(st.children())}))
            break
    for v in accepted_values:
        for y in leaf_values(v):
            if not is_tag_child(y):
                viols.append((f"is_tag_child:{type(y).__name__}",
                              f"is_tag_child({y!r}) is False although {opkey} accepted the value",
                              {"value": repr(y)}))
                return


def canon(st: State):
    return (st.kind, tuple(describe(st.children())))


def make_step():
    def step(hist):
        st = None
        n_effect = 0
        viols = []
        for k, op in enumerate(hist):
            last = k == len(hist) - 1
            st, vs, eff = apply_op(st, op)
            if eff:
                n_effect += 1
            if last:
                viols = vs
            elif vs or st is None:
                return {"key": None}      # prefix already reported / dead state
            if st is None:
                break
        key = canon(st) if (st is not None and not viols) else None
        if st is not None and len(st.model) > 12:
            key = None                    # bound list growth (repetition ops)
        return {"key": key, "viol": viols,
                "nontrivial": len(hist) >= 2 and n_effect >= 1,
                "outcome": key if key is not None else ("V", tuple(v[0] for v in viols))}
    return step


def same_list(real, model):
    if len(real) != len(model):
        return False
    for r, m in zip(real, model):
        if type(m) is str:
            if type(r) is not str or r != m:
                return False
        elif isinstance(m, str) and not isinstance(m, GenElem):
            # an instance of a str subclass supplied by the caller: kept as the same object
            if r is not m:
                return False
        elif isinstance(m, GenElem):
            if type(r) is not type(m.v) or (isinstance(r, str) and r != m.v):
                return False
        elif r is not m:
            return False
    return True


_FLAG_SCRIPT = r'''
import sys
sys.path.insert(0, sys.argv[1])
import decimal, fractions
from htmltools import Tag, TagList
kind, op = sys.argv[2], sys.argv[3]
bad = {"object": object(), "dict": {"a": 1}, "set": {1}, "bytes": b"x", "decimal": decimal.Decimal("1.5"),
       "fraction": fractions.Fraction(1, 2), "complex": 1j, "nested": ["ok", ("k", [object()])]}[kind]
tl = TagList("a", Tag("b", "k"))
tag = Tag("div", "a")
before = (list(tl), list(tag.children))
try:
    if op == "TagList()":
        TagList("x", bad)
    elif op == "Tag()":
        Tag("div", "x", [bad]) if kind == "dict" else Tag("div", "x", bad)
    elif op == "append":
        tl.append("ok", bad)
    elif op == "extend":
        tl.extend(["ok", bad])
    elif op == "insert":
        tl.insert(1, [bad])
    elif op == "+":
        tl + ["ok", bad]
    elif op == "r+":
        ["ok", bad] + tl
    elif op == "+=":
        tl += ["ok", bad]
    elif op == "Tag.append":
        tag.append("ok", bad)
    elif op == "Tag.extend":
        tag.extend(["ok", bad])
    elif op == "Tag.insert":
        tag.insert(0, [bad])
    elif op == "with-block":
        with tag:
            sys.displayhook(bad if kind != "nested" else object())
    print("accepted")
except TypeError:
    print("TypeError" if (list(tl), list(tag.children)) == before else "TypeError-but-changed")
'''
FLAG_SETS = [[], ["-O"], ["-OO"], ["-X", "dev"], ["-E", "-s"]]
FLAG_KINDS = ["object", "dict", "set", "bytes", "decimal", "fraction", "complex", "nested"]
FLAG_OPS = ["TagList()", "Tag()", "append", "extend", "insert", "+", "r+", "+=", "Tag.append", "Tag.extend", "Tag.insert",
            "with-block"]


def fn_flags(case):
    """the same rejections in interpreters started with -O / -OO / -X dev: an unsupported child raises TypeError and
    leaves the list unchanged whatever the interpreter flags (one fresh process per case)."""
    import os
    import subprocess
    from .. import REPO
    flags, kind, op = case
    env = dict(os.environ, PYTHONDONTWRITEBYTECODE="1")
    p = subprocess.run(["/venv/bin/python", *flags, "-c", _FLAG_SCRIPT, REPO, kind, op], capture_output=True, text=True,
                       env=env, timeout=120)
    out = p.stdout.strip().splitlines()[-1] if p.stdout.strip() else "crash: " + p.stderr[-300:]
    viols = []
    if out != "TypeError":
        viols.append((f"interpreter-flags:{' '.join(flags) or 'none'}:{op}", f"unsupported child ({kind}) through {op} under "
                      f"python {' '.join(flags)}: {out}", {}))
    return (bool(flags), out, viols, 1)


def plan(tier):
    return plan0(tier) + [dict(kind="space", name="interpreter-flags", fn=fn_flags,
                               space=Prod(Const(FLAG_SETS), Const(FLAG_KINDS if tier != "quick" else FLAG_KINDS[:4] + ["nested"]),
                                          Const(FLAG_OPS)),
                               note="one fresh interpreter per case, started with no flag / -O / -OO / -X dev / -E -s: "
                                    "every mutator rejects every unsupported value with TypeError, list unchanged")]


def plan0(tier):
    step = make_step()
    full_inits = inits(VALID_ARGS, INVALID_ARGS)
    red_inits = inits(RED_VALID, RED_INVALID)

    def ops_full(hist):
        return OPS_FULL

    def ops_red(hist):
        return OPS_RED

    def roots_full(hist):
        return [h[0] for h in full_inits] if not hist else OPS_FULL

    def roots_red(hist):
        return [h[0] for h in red_inits] if not hist else OPS_RED

    out = []
    if tier == "quick":
        out.append(dict(kind="bfs", name="full-alphabet", init=[[]], ops=roots_full, step=step,
                        depth=3, note=f"constructor + <=2 operations, {len(OPS_FULL)} operations, "
                                      f"{len(full_inits)} constructors"))
        out.append(dict(kind="bfs", name="reduced-alphabet", init=[[]], ops=roots_red, step=step,
                        depth=4, note=f"constructor + <=3 operations, {len(OPS_RED)} operations, "
                                      f"{len(red_inits)} constructors"))
    else:
        out.append(dict(kind="bfs", name="full-alphabet", init=[[]], ops=roots_full, step=step,
                        depth=4, note=f"constructor + <=3 operations, {len(OPS_FULL)} operations"))
        out.append(dict(kind="bfs", name="reduced-alphabet", init=[[]], ops=roots_red, step=step,
                        depth=5, note=f"constructor + <=4 operations, {len(OPS_RED)} operations"))
    return out
