"""C20 - JSX components convert purely and surface all dependencies.

E1 over component trees and prop sets; E2 over conversion sequences (tagify/str/repr).
Oracles: structural snapshot unchanged; result is one <script> carrying react, react-dom
and exactly the metadata nodes placed in the tree; R11 parses the generated
React.createElement expression, which must equal the expression tree derived from the spec.
"""
from __future__ import annotations

import itertools
import os

from ..canon import snap
from ..ref.jsparse import JSParseError, parse_expression
from ..space import Alt, Const, Map, Prod, Seq, trees
from ..spec import build, T, walk

ID = "C20"
LEVEL = "model_checking"
RULE = ("every component tree of depth <= 2 (quick: fan-out (2,1); thorough: (2,2) reduced / "
        "(3,1)) over {Foo, Bar(prop=tag with dependency), Ns.Baz(append), div, span(class)} x "
        "{strings with quotes, number, dependency, tagifiable -> dependency / tag with dependency / "
        "str / component}; every pair of props over 4 raw names x 16 values; every sequence of "
        "1..3 conversions (tagify/str/repr); allow-list matrix. Non-trivial = component with >= 1 "
        "prop and >= 1 child, or containing a dependency. Distinct by construction.")
ASSUMPTIONS = [
    "HTML() children, tagifiable children expanding to a TagList and string-valued style props "
    "are documented as unsupported / rewritten in JSX and are not generated",
    "jsx() expressions generated are identifier paths (so that the mini parser can recognise them); "
    "jsx() is used as a prop value only",
    "dependency multiset (name, version) is compared; the statement fixes no order",
]


def dep(name):
    return ["D", name, "1.0", {}]


def J(name, kids=(), props=(), mode="ctor"):
    return ["J", name, [list(p) for p in props], list(kids), mode]


def Etag(name, kids=(), attrs=(), ws=True):
    return ["E", name, ws, [list(a) for a in attrs], list(kids)]


LEAVES = [T("s"), T("Dear {name}, {component} %s {0} ${x}"), T("q\"t'u"), ["N", 7], T("\u00e9\U0001F600 \u4e2d"), dep("leafdep"), ["D", "leafdep", "0.9", {}],
          ["XJ", dep("xdep")],
          ["XJ", Etag("p", [T("in-x"), dep("xtagdep")])],
          ["XJ", T("xs")],
          ["XJ", J("Inner", [T("ic")], [("pp", Etag("i", [dep("xcompdep")]))])]]
KINDS = [
    lambda k: J("Foo", k),
    lambda k: J("Bar", k, [("p", Etag("b", [T("pt"), dep("propdep")])), ("class_", "c")]),
    lambda k: J("Ns.Baz", k, [("q", J("Qux", [dep("compprop")]))], "append"),
    lambda k: Etag("div", k),
    lambda k: Etag("span", k, [("class", ["H", "k"]), ("title", "t")], False),
]
RED_LEAVES = [T("s"), dep("leafdep"), ["XJ", Etag("p", [dep("xtagdep")])]]

PROP_NAMES = ["p", "class_", "data_x", "x__"]
PROP_VALUES = [None, True, False, 3, 2.5, "s", "{name} {component} %(n)s {0}", 'q"t', "it's", ["LIST", [1, "a", None]], ["TUP", [1, 2]],
               {"a": 1, "b": ["LIST", [True]]}, ["JX", "window.fn"], "window.fn", "\u00e9\U0001F600",
               Etag("em", [T("e"), dep("tagpropdep")], [("id", "i")]),
               J("PropComp", [dep("comppropdep")], [("z", 1)]),
               ["XJ", Etag("u", [dep("xpropdep")])], ["LIST", []], {}, -1, 0, "",
               {'k"q': 1, "sp ace": "v"}, ["FLT", "inf"], ["FLT", "-inf"], ["FLT", "nan"], 1e21, -2.5e-7,
               ["LIST", [["FLT", "inf"], {"n": ["FLT", "nan"]}]],
               ["SUBV", "ordereddict", {"z": 1, "a": "s"}], ["SUBV", "defaultdict", {"k": ["LIST", [1]]}],
               ["SUBV", "namedtuple", [1, "b"]], ["SUBV", "listsub", [True, None]], ["SUBV", "intenum", None],
               ["SUBV", "jsxsub", "window.other"], {"nested": ["SUBV", "namedtuple", [["SUBV", "intenum", None], 2]]}]


# ------------------------------------------------------- expected expression tree
def norm_name(raw):
    if raw.endswith("_"):
        raw = raw[:-1]
    return raw.replace("_", "-")


def expected_value(v):
    """prop value spec -> expected JS value node, plus collected deps."""
    if v is None:
        return ("null",)
    if isinstance(v, bool):
        return ("bool", v)
    if isinstance(v, (int, float)):
        return ("num", float(v))
    if isinstance(v, str):
        return ("str", v)
    if isinstance(v, dict):
        return ("obj", [(k, expected_value(x)) for k, x in v.items()])
    if isinstance(v, list):
        k = v[0] if v else None
        if k in ("LIST", "TUP"):
            return ("arr", [expected_value(x) for x in v[1]])
        if k == "FLT":
            return ("nan",) if v[1] == "nan" else ("num", float(v[1]))
        if k == "SUBV":
            kind, payload = v[1], v[2]
            if kind in ("ordereddict", "defaultdict"):
                return ("obj", [(kk, expected_value(x)) for kk, x in payload.items()])
            if kind in ("namedtuple", "listsub"):
                return ("arr", [expected_value(x) for x in payload])
            if kind == "intenum":
                return ("num", 3.0)
            if kind == "jsxsub":
                return ("raw", payload)
        if k == "JX":
            return ("raw", v[1])
        if k in ("E", "ES", "J", "XJ"):
            return expected_node(v)
    raise ValueError(v)


def expected_node(spec):
    """child / element spec -> expected JS node, or None if nothing is emitted."""
    k = spec[0]
    if k == "T":
        return ("str", spec[1])
    if k in ("N",):
        return ("str", str(spec[1]))
    if k in ("D", "M"):
        return None
    if k == "XJ":
        return expected_node(spec[1])
    if k in ("E", "ES"):
        _, name, ws, attrs, kids = spec
        props = [(a, ("str", v[1] if isinstance(v, list) else str(v))) for a, v in attrs]
        ch = [n for n in (expected_node(c) for c in kids) if n is not None]
        return ("el", ("tag", name), props, ch)
    if k == "J":
        _, name, props, kids, mode = spec
        pr = [(norm_name(a), expected_value(v)) for a, v in props]
        ch = [n for n in (expected_node(c) for c in kids) if n is not None]
        return ("el", ("comp", name), pr, ch)
    raise ValueError(spec)


def expected_deps(spec, acc=None):
    """multiset of dependency names placed anywhere the statement lists."""
    if acc is None:
        acc = []
    k = spec[0] if isinstance(spec, list) and spec else None
    if k == "D":
        acc.append((spec[1], spec[2]))
    elif k == "XJ":
        expected_deps(spec[1], acc)
    elif k in ("E", "ES"):
        for c in spec[4]:
            expected_deps(c, acc)
    elif k == "J":
        for _, v in spec[2]:
            if isinstance(v, list) and v and v[0] in ("E", "ES", "J", "XJ", "D"):
                expected_deps(v, acc)
        for c in spec[3]:
            expected_deps(c, acc)
    return acc


def extract_expression(js_text):
    """the argument of ReactDOM.render( ... , container)"""
    a = js_text.index("ReactDOM.render(") + len("ReactDOM.render(")
    b = js_text.rindex(", container);")
    return js_text[a:b]


def check_conversion(spec, viols, key=""):
    from htmltools import HTML, HTMLDependency, Tag
    x = build(spec)
    s0 = snap(x)
    res = x.tagify()
    if snap(x) != s0:
        viols.append((key + "impure:tagify", "tagify() changed the component (or something reachable from it)",
                      {"before": s0, "after": snap(x)}))
    if not isinstance(res, Tag) or res.name != "script":
        viols.append((key + "result-not-script", f"tagify() returned {type(res).__name__}", {}))
        return None
    deps = res.get_dependencies(dedup=False)
    names = sorted((d.name, str(d.version)) for d in deps)
    from htmltools._versions import versions
    exp = sorted([("react", versions["react"]), ("react-dom", versions["react-dom"])]
                 + expected_deps(deref_j(spec)))
    if names != exp:
        viols.append((key + "dependencies", "dependencies carried by the <script> are not react, "
                      "react-dom plus the metadata nodes of the tree",
                      {"observed": names, "expected": exp}))
    for d in deps:
        if d.name in ("react", "react-dom"):
            ck = (d.name, str(d.version), repr(d.source), repr(d.script))
            if ck not in _FILES_OK:
                src = d.source_path_map()["source"]
                _FILES_OK[ck] = [sc["src"] for sc in d.script
                                 if not os.path.isfile(os.path.join(src, sc["src"]))]
            for missing in _FILES_OK[ck]:
                viols.append((key + "react-file-missing", f"{missing} does not exist in the package", {}))
    texts = [c for c in res.children if isinstance(c, (str, HTML))]
    if len(texts) != 1:
        viols.append((key + "script-text", f"script has {len(texts)} text children", {}))
        return res
    try:
        got = parse_expression(extract_expression(str(texts[0])))
    except (JSParseError, ValueError) as e:
        viols.append((key + "expression-unparsable", f"generated expression does not parse: {e}",
                      {"js": str(texts[0])}))
        return res
    want = expected_node(deref_j(spec))
    if got != want:
        viols.append((key + "expression-mismatch", "React.createElement expression does not mirror the component",
                      {"observed": got, "expected": want, "js": str(texts[0])}))
    return res


_FILES_OK = {}


def nontrivial(spec):
    return (spec[0] == "J" and bool(spec[2]) and bool(spec[3])) or any(
        n[0] == "D" for n in walk_j(spec))


def walk_j(spec):
    yield spec
    k = spec[0]
    if k in ("E", "ES"):
        for c in spec[4]:
            yield from walk_j(c)
    elif k == "J":
        for _, v in spec[2]:
            if isinstance(v, list) and v and v[0] in ("E", "ES", "J", "XJ", "D"):
                yield from walk_j(v)
        for c in spec[3]:
            yield from walk_j(c)
    elif k == "XJ":
        yield from walk_j(spec[1])


def deref_j(spec):
    """["REF", k] among a component's children -> the spec of child k (the reference model sees two equal children)."""
    if isinstance(spec, list) and spec and spec[0] == "J":
        kids = []
        for c in spec[3]:
            kids.append(kids[c[1]] if c[0] == "REF" else deref_j(c))
        return [spec[0], spec[1], [[a, deref_j(v) if isinstance(v, list) else v] for a, v in spec[2]], kids, spec[4]]
    if isinstance(spec, list) and spec and spec[0] in ("E", "ES"):
        return [spec[0], spec[1], spec[2], spec[3], [deref_j(c) for c in spec[4]]]
    if isinstance(spec, list) and spec and spec[0] == "XJ":
        return ["XJ", deref_j(spec[1])]
    return spec


def fn_tree(spec):
    viols = []
    check_conversion(spec, viols)
    return (nontrivial(spec), None, viols)


def fn_props(case):
    (n1, v1), (n2, v2), mode = case
    props = [(n1, v1)] if n1 == n2 else [(n1, v1), (n2, v2)]
    spec = J("Foo", [T("c1"), J("Kid", [], props)], props, mode)
    viols = []
    check_conversion(spec, viols, key="props:")
    return (True, None, viols)


CONV = ["tagify", "str", "repr", "_repr_html_", "doc.render", "tagify+mutate-result"]
SEQ_TREES = [
    J("Foo", [Etag("div", [["XJ", dep("a")]]), T("t")], [("p", Etag("span", [T("q"), dep("b")], ws=False))]),
    J("Foo", [["XJ", Etag("span", [T("Hello"), J("Foo", [T("world")]), dep("b2")], ws=False)]], [], "append"),
    J("Outer", [J("Mid", [J("In", [dep("d3")], [("k", J("PV", [dep("d4")]))])])], [("data_x", {"a": 1})], "extend"),
    J("Foo", [], [("p", ["XJ", Etag("u", [dep("xpropdep")])])]),
    J("Foo", [dep("only")]),
]


def conv(x, name):
    from htmltools import HTMLDocument
    if name == "tagify":
        return snap(x.tagify())
    if name == "tagify+mutate-result":
        # the result belongs to the caller: changing it must never reach later conversions
        r = x.tagify()
        s = snap(r)
        for d in r.get_dependencies(dedup=False):
            d.name = d.name + "-mutated"
            d.all_files = not d.all_files
            for sc in d.script:
                sc["src"] = "mutated.js"
        r.children.append("MUTATED")
        r.attrs["data-mutated"] = "1"
        return s
    if name == "str":
        return str(x)
    if name == "repr":
        return repr(x)
    if name == "_repr_html_":
        return x._repr_html_()
    if name == "doc.render":
        r = HTMLDocument(x).render()
        return (r["html"], tuple(snap(d) for d in r["dependencies"]))


_BASE = {}


def fn_seq(case):
    ti, seq = case
    spec = SEQ_TREES[ti]
    x = build(spec)
    s0 = snap(x)
    viols = []
    for k, name in enumerate(seq):
        bk = (ti, name)
        if bk not in _BASE:
            _BASE[bk] = conv(build(spec), name)
        r = conv(x, name)
        if snap(x) != s0:
            viols.append((f"impure:{name}", f"{name} changed the component", {"sequence": seq[:k + 1],
                          "before": s0, "after": snap(x)}))
            break
        if r != _BASE[bk]:
            viols.append((f"history-dependent:{name}", f"{name} after {seq[:k]} differs from a fresh conversion",
                          {"sequence": seq[:k + 1]}))
            break
    return (True, None, viols)


def fn_copy(ti):
    """a copied component is a component of its own: props set on the copy are normalised like any
    other, appear once, and never reach the original."""
    import copy
    spec = SEQ_TREES[ti]
    x = build(spec)
    s0 = snap(x)
    c = copy.copy(x)
    c.attrs["data_value"] = "v1"
    c.attrs.update(class_="kk", x__=3)
    c.attrs.update({"pos_arg": 1}, {"pos_two": "t"})
    c.append("copy-child")
    viols = []
    if snap(x) != s0:
        viols.append(("copy:aliases-original", "changing a copied component changed the original", {}))
    res = c.tagify()
    texts = [t for t in res.children if isinstance(t, str) or type(t).__name__ == "HTML"]
    try:
        got = parse_expression(extract_expression(str(texts[0])))
        names = [k for k, _ in got[2]]
        for want in ("data-value", "class", "x-", "pos-arg", "pos-two"):
            if names.count(want) != 1:
                viols.append(("copy:prop-names", f"prop {want!r} appears {names.count(want)} times in the copy's "
                              f"expression (props: {names})", {}))
        if any("_" in n for n in names if n not in [a for a, _ in spec[2]]):
            viols.append(("copy:unnormalised-prop", f"un-normalised prop name in {names}", {}))
        if ("str", "copy-child") not in got[3]:
            viols.append(("copy:child", "child appended to the copy is missing", {}))
    except (JSParseError, ValueError, IndexError) as e:
        viols.append(("copy:unparsable", f"{e}", {}))
    return (True, None, viols, 2)


def fn_extend_str(text):
    from htmltools import TagList
    from htmltools._jsx import JSXTag
    viols = []
    ref = TagList("c0")
    ref.extend(text)
    x = JSXTag("Foo", "c0")
    x.extend(text)
    if list(x.children) != list(ref):
        viols.append(("extend:str", f"JSXTag.extend({text!r}) gives children {list(x.children)!r}; the child-list rule "
                      f"(TagList.extend) gives {list(ref)!r}", {}))
    try:
        res = x.tagify()
        texts = [c for c in res.children if isinstance(c, str) or type(c).__name__ == "HTML"]
        got = parse_expression(extract_expression(str(texts[0])))
        want = ("el", ("comp", "Foo"), [], [("str", str(c)) for c in ref])
        if got != want:
            viols.append(("extend:str:expression", "expression does not mirror the children", {"observed": got, "expected": want}))
    except Exception as e:
        viols.append(("extend:str:raises", f"{type(e).__name__}: {e}", {}))
    return (True, None, viols)


def fn_allow(case):
    from htmltools._jsx import JSXTag, jsx_tag_create
    allowed, given, val = case
    viols = []
    ok = all(g in allowed for g in given)
    for how in ("class", "factory"):
        try:
            if how == "class":
                JSXTag("Foo", "child", allowedProps=list(allowed), **{g: val for g in given})
            else:
                jsx_tag_create("Foo", list(allowed))("child", **{g: val for g in given})
            raised = False
        except NotImplementedError:
            raised = True
        if raised == ok:
            viols.append(("allow-list", f"allowedProps={allowed} props={given}: "
                          f"{'rejected' if raised else 'accepted'}", {}))
    return (True, (ok,), viols)


def component_trees(leaves, depth, widths):
    t = trees(Const(leaves), KINDS, depth - 1, widths[1:] or [1])
    comp = Const(KINDS[:3])
    return Map(Prod(comp, Seq(t, 0, widths[0])), lambda kv: kv[0](kv[1]))


def plan(tier):
    pv = Prod(Const(PROP_NAMES), Const(PROP_VALUES))
    out = []
    if tier == "quick":
        out.append(dict(kind="space", name="component-trees", fn=fn_tree,
                        space=component_trees(LEAVES, 2, [2, 1]),
                        note="depth<=2, fan-out (2,1), full alphabet"))
    else:
        out.append(dict(kind="space", name="component-trees", fn=fn_tree,
                        space=component_trees(LEAVES, 2, [3, 1]),
                        note="depth<=2, fan-out (3,1), full alphabet"))
        out.append(dict(kind="space", name="component-trees-deep", fn=fn_tree,
                        space=component_trees(RED_LEAVES, 3, [2, 1, 2]),
                        note="depth<=3, fan-out (2,1,2), reduced leaves"))
    out.append(dict(kind="space", name="props", fn=fn_props,
                    space=Prod(pv, pv, Const(["ctor", "append", "extend", "append-all"])),
                    note=f"all ordered pairs of (raw name, value) over {len(PROP_NAMES)} names x "
                         f"{len(PROP_VALUES)} values x 4 ways of adding children"))
    n = 3
    out.append(dict(kind="space", name="conversion-sequences", fn=fn_seq, execs=n,
                    space=Prod(Const(list(range(len(SEQ_TREES)))), Seq(Const(CONV), 1, n)),
                    note=f"{len(SEQ_TREES)} components x all sequences of 1..{n} of {CONV}"))
    ES = lambda name, kids=(), ws=True: ["ES", name, ws, [], list(kids)]
    hosts = [lambda k: J("Foo", k), lambda k: ES("section", k), lambda k: ES("span", k, False),
             lambda k: Etag("clipPath", k), lambda k: Etag("DIV", k), lambda k: Etag("foreignObject", k, [("viewBox", "0 0 1 1")])]
    hleaves = [T("s"), dep("leafdep"), J("Inner", [T("ic"), dep("innerdep")], [("pp", ES("i", [dep("esprop")]))]),
               ["XJ", ES("p", [dep("xesdep")])]]
    ht = trees(Const(hleaves), hosts, 1, [2])
    out.append(dict(kind="space", name="tag-subclasses-and-mixed-case-names", fn=fn_tree,
                    space=Map(Prod(Const(KINDS[:3]), Seq(ht, 1, 1)), lambda kv: kv[0](kv[1])),
                    note="components whose nested tags are instances of a user subclass of Tag, or have camelCase / upper-case "
                         "names (SVG's clipPath, foreignObject): mirrored under their own names, nested components kept"))
    sty = [{"color": "red", "margin": 0}, {"color": None, "margin": 0}, {}, {"fontSize": 2.5, "a-b": True},
           {"o": {"nested": 1}, "l": ["LIST", [1, None]]}]
    shared = [Etag("div", [T("t"), ["XJ", Etag("p", [dep("shared-x")])]]), Etag("span", [dep("shared-d")], ws=False),
              J("Inner", [["XJ", T("xi")], dep("shared-j")], [("k", 1)]), ["XJ", Etag("u", [dep("shared-xx")])],
              Etag("div", [J("Deep", [["XJ", dep("deep-x")]])])]
    same = []
    for sh in shared:
        same.append(J("Foo", [sh, ["REF", 0]]))
        same.append(J("Foo", [T("a"), sh, Etag("i", [T("m")]), ["REF", 1]], [("p", 1)], "append"))
        same.append(J("Outer", [J("Mid", [sh, ["REF", 0], ["REF", 0]])]))
    out.append(dict(kind="space", name="same-object-at-several-places", fn=fn_tree, space=Const(same),
                    note="one Tag / component / tagifiable object occurring two or three times among a component's children "
                         "(with tagifiable descendants and dependencies): each occurrence is converted"))
    out.append(dict(kind="space", name="style-prop-given-as-dict", fn=fn_props,
                    space=Prod(Prod(Const(["style"]), Const(sty)), Prod(Const(["p", "style"]), Const(sty + [None, "s"])),
                               Const(["ctor", "append"])),
                    note="the style prop given as a dict is written like any other dict (None values as null)"))
    special = ["name", "children", "key", "ref", "className", "htmlFor", "for_", "type", "args", "kwargs", "x", "tagify"]
    out.append(dict(kind="space", name="prop-names-that-look-special", fn=fn_props,
                    space=Prod(Prod(Const(special), Const(["v", 3, None, {"a": 1}])), Prod(Const(special[:4] + ["p"]), Const(["w"])),
                               Const(["ctor", "append"])),
                    note="props called name / children / key / ref / self / args / ... are ordinary props: written once under "
                         "their normalised name"))
    out.append(dict(kind="space", name="children-added-through-extend", fn=fn_props,
                    space=Prod(pv, Const([("p", 1)]), Const(["extend-tuple", "extend-generator", "extend-one-by-one"])),
                    note="children added with extend() of a tuple / a generator / one at a time around empty iterables"))
    out.append(dict(kind="space", name="extend-with-a-bare-string", fn=fn_extend_str, space=Const(["hello world", "x", ""]),
                    note="extend('hello world') follows the child-list rule: strings are kept whole"))
    names = ["p", "q", "r"]
    subsets = [list(c) for r in range(0, 4) for c in itertools.combinations(names, r)]
    out.append(dict(kind="space", name="allow-list", fn=fn_allow,
                    space=Prod(Const(subsets), Const(subsets + [["key"], ["ref", "p"], ["children"]]),
                               Const([1, None, 0, False, "", []])),
                    note="declared allowedProps (every subset of {p,q,r}, the empty list included) x given props (all subsets, "
                         "plus React's key / ref / children names) x 6 prop values incl. None"))
    out.append(dict(kind="space", name="copied-components", fn=fn_copy, space=Const(list(range(len(SEQ_TREES)))),
                    note="copy.copy(component), then props / children set on the copy"))
    return out
