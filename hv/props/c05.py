"""C05 - no whitespace is ever injected into inline content.

E1 over all trees (block-inside-inline included) x whitespace (indent, eol) configurations.
Three-clause oracle (R2 tokenizer + R4 concatenation), see DESIGN.md appendix A.
"""
from __future__ import annotations

import re

from ..alpha import CONFIGS_QUICK, CONFIGS_THOROUGH, only_elements
from ..ref.layout import concat, contains_ws_tag, vis
from ..ref.tokens import TokenError, tokenize
from ..space import Const, Seq, trees
from ..spec import deref, B, I, Vb, Vi, T, H, R, M, build

ID = "C05"
LEVEL = "model_checking"
RULE = ("every tree over {div(ws on), span(ws off), hr(void, ws on), br(void, ws off)} x {text, HTML(), "
        "_repr_html_ object, metadata node} up to the stated depth/fan-out, INCLUDING block-inside-"
        "inline nestings, leaves relabelled with unique whitespace-free labels, rendered under every "
        "whitespace (indent, eol); also as top-level lists. Non-trivial = tree has a ws-enabled tag "
        "and a pair of adjacent whitespace-free siblings. Distinct by construction.")
ASSUMPTIONS = [
    "clauses: (i) concat(S) of every maximal whitespace-free subtree occurs (exactly once when it "
    "holds a labelled leaf); (ii) concat(a)+concat(b) occurs for adjacent visible siblings neither "
    "containing a ws-enabled tag; (iii) every whitespace run strictly inside a rendered tag is "
    "immediately adjacent to an open/close/self-closed token of a ws-enabled tag",
]

LEAVES = [T("t"), H("<i>h</i>"), R("<u>r</u>"), M]
STYLE_LEAF = ["E", "style", False, [], [T("p"), T("q")]]          # ws-off raw-text element with two children
KINDS = [B, I, Vb, Vi]
OWN = {"div", "span", "hr", "br"}
_SPLIT = re.compile(r"\s+|\S+")


def relabel(spec, counter=None):
    if counter is None:
        counter = [0]
    k = spec[0]
    if k == "E":
        return ["E", spec[1], spec[2], spec[3], [relabel(c, counter) for c in spec[4]]]
    n = counter[0]
    counter[0] += 1
    if k == "T":
        return ["T", f"t{n}"]
    if k == "H":
        return ["H", f"<i>h{n}</i>"]
    if k == "R":
        return ["R", f"<u>r{n}</u>"]
    return spec


def expected_tag_tokens(spec, out):
    """document-order (kind, name, ws) for every token a spec element produces."""
    if spec[0] != "E":
        return
    if spec[1] not in OWN:
        return          # e.g. the raw-text <style> leaf: its tokens are not mapped (counts as 'not block')
    kids = vis(spec[4])
    from ..ref.layout import VOID
    if not kids and spec[1] in VOID:
        out.append(("void", spec[1], bool(spec[2])))
        return
    out.append(("open", spec[1], bool(spec[2])))
    for c in kids:
        expected_tag_tokens(c, out)
    out.append(("close", spec[1], bool(spec[2])))


def maximal_ws_free(spec, parent_has_ws, out):
    """collect maximal whitespace-free element subtrees."""
    if spec[0] != "E":
        return
    if not contains_ws_tag(spec):
        if parent_has_ws:
            out.append(spec)
        return
    for c in spec[4]:
        maximal_ws_free(c, True, out)


def adjacent_pairs(kids, out):
    v = vis(kids)
    for a, b in zip(v, v[1:]):
        if not contains_ws_tag(a) and not contains_ws_tag(b):
            out.append((a, b))
    for c in kids:
        if c[0] == "E":
            adjacent_pairs(c[4], out)


def has_label(spec):
    if spec[0] in ("T", "H", "R"):
        return True
    return spec[0] == "E" and any(has_label(c) for c in spec[4])


def check_output(spec_list, out, viols, cfg, is_tag_root):
    # (i)
    maxi = []
    for s in spec_list:
        maximal_ws_free(s, True, maxi)
    for s in maxi:
        c = concat(s)
        n = out.count(c)
        if n == 0 or (has_label(s) and n != 1):
            viols.append(("inline-subtree-not-contiguous",
                          f"whitespace-free subtree does not appear as its exact concatenation ({n} occurrences) for {cfg}",
                          {"subtree": s, "concat": c, "observed": out}))
            return
    # (ii)
    pairs = []
    adjacent_pairs(spec_list if not is_tag_root else spec_list[0][4], pairs)
    for a, b in pairs:
        c = concat(a) + concat(b)
        if c not in out:
            viols.append(("whitespace-between-inline-siblings",
                          f"adjacent whitespace-free siblings are separated in the output for {cfg}",
                          {"a": a, "b": b, "expected_substring": c, "observed": out}))
            return
    # (iii)
    if not is_tag_root:
        return
    try:
        toks = tokenize(out)
    except TokenError as e:
        viols.append(("untokenizable", f"output does not tokenize: {e}", {"observed": out}))
        return
    exp = []
    expected_tag_tokens(spec_list[0], exp)
    stream = []   # ("tag", ws) | ("ws",) | ("txt",)
    k = 0
    for t in toks:
        if t[0] == "text":
            for m in _SPLIT.finditer(t[1]):
                stream.append(("ws",) if m.group(0).isspace() else ("txt",))
        elif t[1] in OWN:
            if k >= len(exp) or exp[k][0] != t[0] or exp[k][1] != t[1]:
                viols.append(("tag-sequence", f"tag tokens differ from the tree's elements at #{k} for {cfg}",
                              {"observed": out}))
                return
            stream.append(("tag", exp[k][2]))
            k += 1
        else:
            stream.append(("tag", False))
    if k != len(exp):
        viols.append(("tag-sequence", f"missing tag tokens for {cfg}", {"observed": out}))
        return
    # strictly inside the root: between the first and last own tag token
    first = next(i for i, s in enumerate(stream) if s[0] == "tag")
    last = len(stream) - 1 - next(i for i, s in enumerate(reversed(stream)) if s[0] == "tag")
    for i in range(first + 1, last):
        if stream[i][0] == "ws":
            left, right = stream[i - 1], stream[i + 1]
            if not ((left[0] == "tag" and left[1]) or (right[0] == "tag" and right[1])):
                viols.append(("whitespace-not-at-block-tag",
                              f"layout whitespace not adjacent to a ws-enabled tag for {cfg}",
                              {"observed": out}))
                return
    if stream[:first] and any(s[0] != "ws" for s in stream[:first]):
        viols.append(("junk-before-root", "text before the root tag", {"observed": out}))


WS_LEAVES = [T("t\n"), T(" s "), H("<i>h</i>\n"), T("x\r\ny"), R("<u>r</u> "), T("\n")]


def make_fn_ws(configs):
    """leaves that themselves hold / end with whitespace: clauses (i) and (ii) only (no relabelling,
    occurrence instead of exactly-once)."""
    def fn(case):
        viols = []
        obj_spec, case = case, deref(case)
        for (indent, eol) in configs:
            out = build(obj_spec).get_html_string(indent, eol)
            maxi = []
            maximal_ws_free(case, True, maxi)
            for s_ in maxi:
                if concat(s_) not in out:
                    viols.append(("inline-subtree-not-contiguous:ws-leaves",
                                  f"whitespace-free subtree (with whitespace-bearing text) is not emitted as its exact concatenation for {(indent, eol)}",
                                  {"subtree": s_, "observed": out}))
                    return (True, None, viols)
            pairs = []
            adjacent_pairs(case[4], pairs)
            for a, b in pairs:
                if concat(a) + concat(b) not in out:
                    viols.append(("whitespace-between-inline-siblings:ws-leaves",
                                  f"adjacent whitespace-free siblings separated for {(indent, eol)}",
                                  {"a": a, "b": b, "observed": out}))
                    return (True, None, viols)
        return (True, None, viols)
    return fn


def inline_catalogue():
    """every tags.* / svg.* element that defaults to inline, between inline siblings and after text."""
    from htmltools import svg, tags
    out = []
    code = ["E", "code", False, [], [T("c")]]
    for mod in (tags, svg):
        for n, f in vars(mod).items():
            if callable(f) and getattr(f, "__module__", "") == mod.__name__ and not n.startswith("_"):
                if f().add_ws or n in ("script", "style"):
                    continue
                el = ["E", n, False, [], [T("x")]]
                out.append(["E", "div", True, [], [el, T("tail")]])
                out.append(["E", "span", False, [], [code, el, code]])
                out.append(["E", "div", True, [], [T("lead"), el, el, ["E", "div", True, [], []]]])
    return out


def nontriv(spec_list):
    pairs = []
    adjacent_pairs(spec_list, pairs)
    return bool(pairs) and any(contains_ws_tag(s) for s in spec_list)


def make_fn(configs, toplist):
    def fn(case):
        if toplist:
            specs = [relabel(["E", "x", False, [], case])][0][4]
        else:
            specs = [relabel(case)]
        viols = []
        outs = []
        for (indent, eol) in configs:
            if toplist:
                from htmltools import TagList
                out = TagList(*[build(s) for s in specs]).get_html_string(indent, eol)
            else:
                out = build(specs[0]).get_html_string(indent, eol)
            outs.append(out)
            check_output(specs, out, viols, (indent, eol), not toplist)
            if viols:
                break
        return (nontriv(specs), "|".join(outs[:1]), viols)
    return fn


def plan(tier):
    configs = CONFIGS_QUICK if tier == "quick" else CONFIGS_THOROUGH
    fn_tag, fn_list = make_fn(configs, False), make_fn(configs, True)
    out = []
    t1 = trees(Const(LEAVES), KINDS, 1, 4)
    out.append(dict(kind="space", name="wide-shallow-d1w4", space=only_elements(t1), fn=fn_tag,
                    execs=len(configs), note="depth<=1 fan-out<=4"))
    tws = trees(Const(WS_LEAVES[:3] + [T("t")] if tier == "quick" else WS_LEAVES + [T("t")]), [B, I], 2, 2)
    out.append(dict(kind="space", name="whitespace-bearing-leaves", space=only_elements(tws), fn=make_fn_ws(configs),
                    execs=len(configs), note="leaves that hold or end with whitespace / newlines; clauses (i), (ii)"))
    out.append(dict(kind="space", name="inline-catalogue", space=Const(inline_catalogue()), fn=make_fn_ws(configs),
                    execs=len(configs), note="every tags.*/svg.* element that defaults to inline, in 3 sibling contexts"))
    from .c06 import same_object_cases
    so = same_object_cases(3 if tier == "quick" else 4)
    out.append(dict(kind="space", name="same-tag-object-twice-among-siblings", space=Const(so), fn=make_fn_ws(configs),
                    note=f"{len(so)} child lists in which one Tag object occurs twice (at a line start and inside an inline "
                         "run): every occurrence of a whitespace-free subtree is its exact concatenation"))
    wsl = [T(" "), T("\t"), T("\u3000"), T("a"), H(" ")]
    tw = trees(Const(wsl), [B, I], 1, 3)
    out.append(dict(kind="space", name="whitespace-only-text-children", space=only_elements(tw), fn=make_fn_ws(configs),
                    note="whitespace-only text children are part of their run like any other text"))
    ts = trees(Const([T("t"), M, STYLE_LEAF]), KINDS, 1, 3)
    out.append(dict(kind="space", name="inline-raw-text-leaf", space=only_elements(ts), fn=fn_tag,
                    execs=len(configs), note="depth<=1 fan-out<=3 with a ws-off <style> holding two text children"))
    t0 = trees(Const(LEAVES), KINDS, 1, 1)
    out.append(dict(kind="space", name="toplist", space=Seq(t0, 2, 3), fn=fn_list,
                    execs=len(configs), note="top-level lists of 2..3 items of depth<=1 fan-out<=1"))
    if tier == "quick":
        t2 = trees(Const([T("t"), R("<u>r</u>"), M]), KINDS, 2, 2)
        out.append(dict(kind="space", name="square-d2w2-reduced", space=only_elements(t2), fn=fn_tag,
                        execs=len(configs), note="depth<=2 fan-out<=2, leaves {text,_repr_html_,metadata}"))
        t3 = trees(Const([T("t")]), [B, I], 3, [2, 2, 1])
        out.append(dict(kind="space", name="deep-d3", space=only_elements(t3), fn=fn_tag,
                        execs=len(configs), note="depth<=3 fan-out (2,2,1) over {div,span,text}"))
    else:
        t2 = trees(Const(LEAVES), KINDS, 2, 2)
        out.append(dict(kind="space", name="square-d2w2-full", space=only_elements(t2), fn=fn_tag,
                        execs=len(configs), note="depth<=2 fan-out<=2 full alphabet"))
        t3 = trees(Const([T("t")]), [B, I], 3, [2, 2, 2])
        out.append(dict(kind="space", name="deep-d3", space=only_elements(t3), fn=fn_tag,
                        execs=len(configs), note="depth<=3 fan-out 2 over {div,span,text}"))
    return out
