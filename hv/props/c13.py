"""C13 - serialised dependencies round-trip through HTML text.

E1/E3: hostile strings in every dependency field (one field at a time; all pairs in
thorough) x indent; documents = sequences of serialised copies interleaved with
surrounding text; placeholder multiplicities; JSON-mode end-to-end.
"""
from __future__ import annotations

import copy
import itertools
import re

from ..ref.deps import build_dep, head_payload, resolve_infos
from ..space import Const, Prod, Seq

ID = "C13"
LEVEL = "model_checking"
RULE = ("hostile strings x dependency fields (singles; all pairs of fields in thorough) x "
        "indent {None,0,2}; documents of 1-3 serialised copies (with repeats) interleaved with "
        "surrounding text; placeholder multiplicity 0/1/2; JSON render mode end-to-end on small "
        "trees. Non-trivial = the serialisation contains at least one hostile token or the "
        "document holds >= 2 serialisations. Distinct by construction.")
ASSUMPTIONS = [
    "an HTML tokenizer ends a <script> element at the first '</script' in any letter case "
    "followed by anything; clause (i) therefore forbids (?i)</script inside the element",
    "head markup is compared as rendered markup (a recovered head is HTML text)",
]

HOSTILE = ["</script>", "</SCRIPT>", "</ScRiPt ", "</script\n", "<!--", "<\\/script>", "</",
           '"', "\\", "\n", "\r\n", "]]>", "\u00e9", "\U0001F600", "<script>", "&amp;", "&", "'",
           "</scr</script>ipt>", "\\</script>", "\u2028"]
VERSIONS = ["1.0-1", "v2.1", "01.02", "1.0.0RC1", "1!2.0+u.1", "1.0.post1", "2.0.0.0", "1.0a1"]
FIELDS = ["name", "source.href", "source.subdir", "script.src", "script.type", "stylesheet.href",
          "stylesheet.title", "meta.name", "meta.content", "head.str", "head.script", "head.text",
          "nosource.script.src", "nosource.stylesheet.href", "head.padded", "source.package-none", "script.value-none", "stylesheet.rel"]
INDENTS = [None, 0, 2]
PLACEHOLDER = "<meta name=\"deps-go-here\">"


def base_info():
    return {"name": "dep", "version": "1.2", "source": {"subdir": "lib/x"},
            "script": [{"src": "a.js"}], "stylesheet": [{"href": "a.css"}],
            "meta": [{"name": "m", "content": "c"}], "all_files": False, "head": None}


def put(info, field, s):
    if field == "name":
        info["name"] = "n" + s
    elif field == "source.href":
        info["source"] = {"href": "http://x/" + s}
    elif field == "source.subdir":
        info["source"] = {"subdir": "lib/" + s}
    elif field == "script.src":
        info["script"] = [{"src": "a.js"}, {"src": s + ".js"}]
    elif field == "script.type":
        info["script"] = [{"src": "a.js", "type": s}]
    elif field == "stylesheet.href":
        info["stylesheet"] = [{"href": s + ".css"}]
    elif field == "stylesheet.title":
        info["stylesheet"] = [{"href": "a.css", "title": s}]
    elif field == "meta.name":
        info["meta"] = [{"name": s, "content": "c"}]
    elif field == "meta.content":
        info["meta"] = [{"name": "m", "content": s}]
    elif field == "nosource.script.src":
        info["source"] = None
        info["script"] = [{"src": "my file " + s + ".js"}]
    elif field == "nosource.stylesheet.href":
        info["source"] = None
        info["stylesheet"] = [{"href": "a%b " + s + ".css"}]
    elif field == "stylesheet.rel":
        info["stylesheet"] = [{"href": "a.css", "rel": "alternate " + s}, {"href": "b.css"}]
    elif field == "source.package-none":
        info["source"] = {"package": None, "subdir": "lib/" + s}
    elif field == "script.value-none":
        info["script"] = [{"src": s + ".js", "integrity": None, "async": ""}]
    elif field == "head.padded":
        info["head"] = "\n  <i>" + s + "</i> \n"
    elif field == "head.str":
        info["head"] = (info["head"] or "") + "<i>" + s + "</i>"
    elif field == "head.script":
        info["head"] = (info["head"] or "") + "<script>var x = '" + s + "';</script>"
    elif field == "head.text":
        info["head"] = (info["head"] or "") + s
    return info


def make_info(puts):
    info = base_info()
    for field, s in puts:
        put(info, field, s)
    return info


def serialise(info, indent):
    dep = build_dep(info)
    # history: the dependency has been rendered / inspected before it is serialised
    dep.as_dict()
    str(dep)
    dep.as_html_tags(lib_prefix=None)
    tag = dep.serialize_to_script_json(indent=indent)
    return dep, tag.get_html_string()


_OPEN = '<script type="application/json" data-html-dependency="">'


def dep_fields(dep):
    return {"name": dep.name, "version": str(dep.version), "source": dep.source,
            "script": dep.script, "stylesheet": dep.stylesheet, "meta": dep.meta,
            "all_files": dep.all_files,
            "head": None if dep.head is None else dep.head.get_html_string()}


def expected_fields(info):
    st = copy.deepcopy(info.get("stylesheet") or [])
    for s in st:
        s.setdefault("rel", "stylesheet")
    return {"name": info["name"], "version": info["version"], "source": info.get("source"),
            "script": info.get("script") or [], "stylesheet": st, "meta": info.get("meta") or [],
            "all_files": bool(info.get("all_files")), "head": info.get("head")}


def check_serialisation(info, indent, viols, keytag):
    """clauses (i) and single-copy (ii)."""
    from htmltools import HTMLTextDocument
    dep, text = serialise(info, indent)
    if not (text.startswith(_OPEN) and text.endswith("</script>")):
        viols.append((f"{keytag}:form", "serialisation is not the documented <script> element",
                      {"observed": text}))
        return text
    inner = text[len(_OPEN):-len("</script>")]
    m = re.search(r"(?i)</script", inner)
    if m:
        viols.append((f"{keytag}:end-tag-inside",
                      f"'{inner[m.start():m.start()+9]}' occurs inside the serialised element",
                      {"observed": text}))
    # own fields first: what the dependency holds is what was given
    got0 = dep_fields(dep)
    exp = expected_fields(info)
    if got0 != exp:
        viols.append((f"{keytag}:construct", "constructed dependency differs from its definition",
                      {"observed": got0, "expected": exp}))
    surround = "<p>before</p>\n" + text + "<p>after</p>"
    try:
        doc = HTMLTextDocument(surround, deps_replace_pattern=PLACEHOLDER)
        r = doc.render()
    except Exception as e:
        viols.append((f"{keytag}:extract-raises", f"extraction raised {type(e).__name__}: {e}",
                      {"text": surround}))
        return text
    deps = r["dependencies"]
    if len(deps) != 1:
        viols.append((f"{keytag}:count", f"{len(deps)} dependencies recovered from one serialisation",
                      {"text": surround}))
        return text
    got = dep_fields(deps[0])
    if got != exp:
        diff = [k for k in exp if got.get(k) != exp[k]]
        viols.append((f"{keytag}:roundtrip", f"recovered dependency differs in {diff}",
                      {"observed": got, "expected": exp}))
    try:
        orig_tags = build_dep(info).as_html_tags().get_html_string()
        if deps[0].as_html_tags().get_html_string() != orig_tags:
            viols.append((f"{keytag}:markup-differs", "the recovered dependency emits different markup (URLs) than the original",
                          {"observed": deps[0].as_html_tags().get_html_string(), "expected": orig_tags}))
    except Exception as e:
        viols.append((f"{keytag}:as_html_tags-raises", f"{type(e).__name__}: {e}", {}))
    if not (deps[0] == dep):
        # equal as dependencies (head compared as markup above; == compares head TagLists)
        if got == exp and dep.head is None:
            viols.append((f"{keytag}:not-equal", "recovered dependency is not == the original",
                          {"text": surround}))
    if r["html"] != "<p>before</p>\n<p>after</p>":
        viols.append((f"{keytag}:residue", "text after extraction is not the input minus the script",
                      {"observed": r["html"]}))
    # history: the dependency is changed after it has been serialised once: a new serialisation
    # carries the change
    dep.name = dep.name + "-v2"
    dep.all_files = not dep.all_files
    dep.script.append({"src": "late.js"})
    text2 = dep.serialize_to_script_json(indent=indent).get_html_string()
    try:
        r2 = HTMLTextDocument("x" + text2, deps_replace_pattern=PLACEHOLDER).render()
        if [dep_fields(d) for d in r2["dependencies"]] != [dep_fields(dep)]:
            viols.append((f"{keytag}:stale-serialisation", "a dependency changed after its first serialisation is "
                          "serialised with its old state", {"observed": [dep_fields(d) for d in r2["dependencies"]][:1]}))
    except Exception as e:
        viols.append((f"{keytag}:extract-raises", f"second extraction raised {type(e).__name__}: {e}", {}))
    return text


def fn_single(case):
    field, s, indent = case
    viols = []
    info = make_info([(field, s)])
    check_serialisation(info, indent, viols, f"field={field}")
    return (True, None, viols)


def fn_version(case):
    """version strings whose normalised spelling differs from what was typed"""
    ver, indent = case
    info = base_info()
    viols = []
    from packaging.version import Version
    info["version"] = str(Version(ver))        # what str(dep.version) is defined to show
    info_typed = dict(info, version=ver)
    dep_typed = build_dep(info_typed)
    # serialise the dependency built from the typed spelling; the recovered one must equal it
    text = dep_typed.serialize_to_script_json(indent=indent).get_html_string()
    from htmltools import HTMLTextDocument
    r = HTMLTextDocument(text, deps_replace_pattern=PLACEHOLDER).render()
    if len(r["dependencies"]) != 1:
        viols.append(("version:count", "not exactly one dependency recovered", {}))
    else:
        rec = r["dependencies"][0]
        if dep_fields(rec) != dep_fields(dep_typed) or not (rec == dep_typed):
            viols.append(("version:roundtrip", f"dependency with version {ver!r} does not round-trip", {
                "observed": dep_fields(rec), "expected": dep_fields(dep_typed)}))
        a = rec.as_html_tags(lib_prefix="lib").get_html_string()
        b = dep_typed.as_html_tags(lib_prefix="lib").get_html_string()
        if a != b or rec.source_path_map() != dep_typed.source_path_map():
            viols.append(("version:markup-differs", f"recovered dependency (version {ver!r}) emits different URLs than the original",
                          {"observed": a, "expected": b}))
    return (True, None, viols, 3)


def fn_pair(case):
    (f1, s1), (f2, s2), indent = case
    if f1 >= f2:
        return (False, None, [])
    viols = []
    info = make_info([(f1, s1), (f2, s2)])
    check_serialisation(info, indent, viols, f"fields={f1}+{f2}")
    return (True, None, viols)


# ------------------------------------------------------------------ documents
DOC_DEPS = [
    make_info([]),
    make_info([("name", "B"), ("head.str", "h</SCRIPT>")]),
    {"name": "url", "version": "2.0.1", "source": {"href": "https://cdn.example/x"},
     "script": [{"src": "u.js"}], "stylesheet": [], "meta": [], "all_files": False, "head": None},
    {"name": "dep", "version": "1.10", "source": None, "script": [], "stylesheet": [],
     "meta": [], "all_files": True, "head": "<title>t</title>"},
    # same name AND version as DOC_DEPS[0] but a different definition: a distinct serialisation
    {"name": "dep", "version": "1.2", "source": {"subdir": "lib/x"}, "script": [{"src": "other.js"}],
     "stylesheet": [], "meta": [], "all_files": False, "head": None},
    # backslashes / regex-template look-alikes in head and meta (rendered into the placeholder)
    {"name": "bs", "version": "3", "source": None, "script": [], "stylesheet": [],
     "meta": [{"name": "path", "content": "C:\\new\\tools \\1 \\g<0>"}], "all_files": False,
     "head": "<script>var s = 'a\\nb\\\\c \\1';</script>"},
]
SURROUND = ["", "<p>x</p>\n", "</script>", "<script>", PLACEHOLDER, "é<b>&amp;</b>"]


def fn_document(case):
    """case = (texts[len n+1], dep indices[len n], indent)"""
    from htmltools import HTMLTextDocument
    texts, idxs, indent = case[:3]
    explicit = case[3] if len(case) > 3 else None      # dependencies handed to the constructor as well
    viols = []
    sers = []
    mixed = indent == "mixed"
    for k, i in enumerate(idxs):
        _, t = serialise(DOC_DEPS[i], (None if k % 2 == 0 else 2) if mixed else indent)
        sers.append(t)
    html = texts[0]
    for t, x in zip(sers, texts[1:]):
        html += t + x
    plain = "".join(texts)
    # expected: once per distinct serialisation, order of first appearance
    seen, order = set(), []
    for i, t in zip(idxs, sers):
        if t not in seen:          # once per distinct serialisation (text), first appearance
            seen.add(t)
            order.append(DOC_DEPS[i])
    given = []
    if explicit == "same-name-older":
        # same NAME as the first embedded dependency, another version and definition
        given = [dict(DOC_DEPS[idxs[0]], version="0.0.1", script=[{"src": "given.js"}])] if idxs else []
    elif explicit == "unrelated":
        given = [{"name": "given", "version": "9", "source": None, "script": [{"src": "g.js"}], "stylesheet": [], "meta": [],
                  "all_files": False, "head": None}]
    elif explicit == "identical":
        given = [DOC_DEPS[idxs[0]]] if idxs else []
    order = given + order
    try:
        if given:
            doc = HTMLTextDocument(html, deps=[build_dep(g) for g in given], deps_replace_pattern=PLACEHOLDER)
        else:
            doc = HTMLTextDocument(html, deps_replace_pattern=PLACEHOLDER)
        r = doc.render()
    except Exception as e:
        return (True, "EXC", [("doc:raises", f"HTMLTextDocument raised {type(e).__name__}: {e}",
                               {"html": html})])
    got = copy.deepcopy([dep_fields(d) for d in r["dependencies"]])
    exp = [expected_fields(i) for i in order]
    if got != exp:
        viols.append(("doc:deps" + (":with-explicit-deps" if given else ""), "recovered dependency list is not (the dependencies "
                      "given to the constructor, then) one per distinct serialisation in order of first appearance",
                      {"observed": [g["name"] + g["version"] for g in got],
                       "expected": [g["name"] + g["version"] for g in exp]}))
        return (True, None, viols)
    # render(): only the first placeholder replaced, by listing + dependency markup
    from htmltools import TagList
    payload = TagList(*head_payload(order)).get_html_string()
    exp_html = plain.replace(PLACEHOLDER, payload, 1) if PLACEHOLDER in plain else plain
    # (the reference replaces the first occurrence itself)
    k = plain.find(PLACEHOLDER)
    exp_html2 = plain if k < 0 else plain[:k] + payload + plain[k + len(PLACEHOLDER):]
    assert exp_html == exp_html2
    if r["html"] != exp_html2:
        viols.append(("doc:render", "render() output is not the text with only the first "
                      "placeholder replaced by listing + dependency markup",
                      {"observed": r["html"], "expected": exp_html2}))
    # what render() returns belongs to the caller: changing it never reaches the document
    r["dependencies"].append(build_dep(DOC_DEPS[2]))
    for d in r["dependencies"][:1]:
        d.script.append({"src": "caller-added.js"})
        d.name = d.name + "-caller"
    r["dependencies"].reverse()
    r2 = doc.render()
    if r2["html"] != r["html"] or [dep_fields(d) for d in r2["dependencies"]] != got:
        viols.append(("doc:render-twice", "second render() differs after the caller changed what the first returned", {}))
    return (len(idxs) >= 2, (len(got), plain.count(PLACEHOLDER)), viols)


# ------------------------------------------------------------- JSON mode (iv)
JSON_TREES = [
    # dependencies that exist only in the expansion of a tagifiable object
    ["E", "div", True, [], [["T", "a"], ["X", ["E", "p", True, [], [["T", "x"], ["D", "dx", "1.0", {"script": {"src": "x.js"}}]]]]]],
    ["L", [["X", ["L", [["D", "dy", "2.0", {"head": "<b>y</b>"}], ["T", "t"]]]], ["D", "dz", "1", {}]]],
    ["E", "div", True, [], [["T", "a"], ["D", "d1", "1.0", {"script": {"src": "s.js"}, "source": {"subdir": "lib"}}]]],
    ["E", "div", True, [], [["D", "d1", "1.0", {"head": "<b></SCRIPT></b>"}],
                            ["E", "span", False, [], [["D", "d2", "2.0", {"meta": {"name": "n", "content": "</script>"}}]]],
                            ["D", "d1", "1.1", {"stylesheet": {"href": "x y.css"}, "source": {"href": "http://h/"}}]]],
    ["L", [["T", "x"], ["D", "d3", "3", {}], ["E", "p", True, [], [["T", "y"]]]]],
    ["L", [["E", "p", True, [], []]]],
    # a JSX component on its own: str() of it in JSON mode carries react, react-dom and its own dependencies
    ["J", "Foo", [["p", ["E", "b", False, [], [["D", "jprop", "1.0", {}]]]]], [["T", "c"], ["D", "jchild", "2.0", {"script": {"src": "j.js"}}]], "ctor"],
    # a dependency whose head holds tags AND another dependency (reported, but not part of the head markup)
    ["E", "div", True, [], [["T", "n"], ["D", "outer", "1.0", {"head_spec": [["E", "title", True, [], [["T", "t"]]],
                                                                           ["D", "inner", "2.0", {"script": {"src": "i.js"}}]]}]]],
]


JSON_PRE = ["nothing", "document-rendered", "document-render-fails", "tag-render-fails", "save_html-fails",
            "document-render-fails-twice"]


def fn_jsonmode(case):
    import htmltools
    from htmltools import HTMLDocument, HTMLTextDocument, Tag
    from ..spec import Boom, build
    i, pre = case
    viols = []
    x = build(JSON_TREES[i])
    direct = x.render() if hasattr(x, "render") else x.tagify().render()      # (a JSX component has no render())
    assert htmltools.html_dependency_render_mode == "invisible"
    htmltools.html_dependency_render_mode = "json"
    try:
        # history: while the process is in JSON mode (as under Quarto), other renders happen first - some
        # of them fail half-way because an object raises from tagify()
        for _ in range(2 if pre.endswith("twice") else 1):
            try:
                if pre == "document-rendered":
                    HTMLDocument(build(JSON_TREES[2])).render()
                elif pre.startswith("document-render-fails"):
                    HTMLDocument(Tag("div", build(JSON_TREES[2]), Boom())).render()
                elif pre == "tag-render-fails":
                    Tag("div", build(JSON_TREES[2]), Boom()).render()
                elif pre == "save_html-fails":
                    import os, tempfile, shutil
                    d = tempfile.mkdtemp(prefix="hv-c13-")
                    try:
                        Tag("div", Boom()).save_html(os.path.join(d, "i.html"))
                    finally:
                        shutil.rmtree(d, ignore_errors=True)
            except RuntimeError:
                pass
        if htmltools.html_dependency_render_mode != "json":
            viols.append(("json:mode-changed-by-render", f"after '{pre}' html_dependency_render_mode is "
                          f"{htmltools.html_dependency_render_mode!r}, not the 'json' the application set", {}))
            htmltools.html_dependency_render_mode = "json"
        s = str(x)
    finally:
        htmltools.html_dependency_render_mode = "invisible"
    doc = HTMLTextDocument(s, deps_replace_pattern=PLACEHOLDER)
    r = doc.render()
    d1 = [dep_fields(d) for d in direct["dependencies"]]
    d2 = [dep_fields(d) for d in r["dependencies"]]
    if d1 != d2:
        viols.append(("json:deps", "JSON mode + HTMLTextDocument gives different dependencies "
                      "than direct render()", {"direct": d1, "json": d2}))
    nsep = max(len(d1) - 1, 0)
    if r["html"] != direct["html"] + "\n" * nsep:
        viols.append(("json:html", "JSON mode html (minus scripts) differs from direct html",
                      {"direct": direct["html"], "json": r["html"]}))
    if str(x) != direct["html"]:
        viols.append(("json:mode-leak", "str() differs after the mode was reset", {}))
    return (bool(d1), len(d1), viols)


# ------------------------------------ (iii') same markup as HTMLDocument, user subclasses included
_SUB = {}


def dep_subclasses():
    if _SUB:
        return _SUB
    from htmltools import HTMLDependency, Tag, TagList

    class NonceDep(HTMLDependency):
        """user subclass overriding the public as_html_tags(): adds a nonce to its <script> tags"""

        def as_html_tags(self, *, lib_prefix="lib", include_version=True):
            out = super().as_html_tags(lib_prefix=lib_prefix, include_version=include_version)
            for t in out:
                if isinstance(t, Tag) and t.name == "script":
                    t.attrs["nonce"] = "N0nce"
            return out

    class CrossDep(HTMLDependency):
        """user subclass overriding the public as_dict(): every script is crossorigin"""

        def as_dict(self, *, lib_prefix="lib", include_version=True):
            d = super().as_dict(lib_prefix=lib_prefix, include_version=include_version)
            for sc in d["script"]:
                sc["crossorigin"] = "anonymous"
            return d

    class PrefixDep(HTMLDependency):
        """user subclass overriding the public source_path_map(): another directory name"""

        def source_path_map(self, *, lib_prefix="lib", include_version=True):
            m = super().source_path_map(lib_prefix=lib_prefix, include_version=include_version)
            return {"source": m["source"], "href": m["href"] + ".vendored"}

    _SUB.update({"nonce": NonceDep, "cross": CrossDep, "prefix": PrefixDep})
    return _SUB


DIFF_DEPS = [
    ("plain", None), ("amp-name", None), ("url", None), ("head-tag", None), ("head-list", None),
    ("nonce", "nonce"), ("cross", "cross"), ("prefix", "prefix"),
]


def diff_dep(kind):
    from htmltools import HTMLDependency, Tag
    sub = dict(DIFF_DEPS)[kind]
    cls = dep_subclasses()[sub] if sub else HTMLDependency
    if kind == "amp-name":
        return cls("R&D <w>", "1.0", source={"subdir": "libdir"}, script={"src": "a&b.js"}, meta={"name": "m&", "content": "<c>"})
    if kind == "url":
        return cls("u", "2.0.1", source={"href": "https://cdn.example/x"}, script={"src": "u.js"}, stylesheet={"href": "u.css"})
    if kind == "head-tag":
        return cls("ht", "1", head=Tag("link", rel="preload", href="f.woff"))
    if kind == "head-list":
        return cls("hl", "1.1", source={"subdir": "libdir"}, script={"src": "h.js"},
                   head=[Tag("meta", name="hm", content="1"), "a<b & c", Tag("title", "t")])
    return cls("dep-" + kind, "1.2", source={"subdir": "libdir"}, script=[{"src": "a.js"}, {"src": "b c.js", "defer": True}],
               stylesheet={"href": "a.css"}, meta={"name": "m", "content": "c"}, head="<link rel=\"icon\"/>")


def sig_tokens(toks):
    out = []
    for t in toks:
        if t[0] == "text":
            if t[1].strip():
                out.append(("text", t[1].strip()))
        else:
            out.append(t)
    return out


def fn_samemarkup(case):
    """HTMLTextDocument.render(deps=...) inserts the same listing and dependency markup that HTMLDocument
    puts in <head> for the same dependencies (differential; token streams compared)."""
    from htmltools import HTMLDocument, HTMLTextDocument, Tag
    from ..ref.tokens import TokenError, tokenize
    kinds, prefix, incv = case
    viols = []
    deps_a = [diff_dep(k) for k in kinds]
    deps_b = [diff_dep(k) for k in kinds]
    ra = HTMLDocument(Tag("p", "x"), *deps_a).render(lib_prefix=prefix, include_version=incv)
    text = "<html><head>\nSTART" + PLACEHOLDER + "END\n</head><body><p>x</p></body></html>"
    rb = HTMLTextDocument(text, deps=deps_b, deps_replace_pattern=PLACEHOLDER).render(lib_prefix=prefix, include_version=incv)
    try:
        ha = ra["html"]
        a0 = ha.index('<meta charset="utf-8"/>') + len('<meta charset="utf-8"/>')
        a1 = ha.index("</head>")
        hb = rb["html"]
        b0 = hb.index("START") + 5
        b1 = hb.index("END\n</head>")
        ta = sig_tokens(tokenize(ha[a0:a1]))
        tb = sig_tokens(tokenize(hb[b0:b1]))
    except (ValueError, TokenError) as e:
        viols.append(("same-markup:unparsable", f"{type(e).__name__}: {e}", {"document": ra["html"], "text": rb["html"]}))
        return (True, None, viols, 2)
    if ta != tb:
        viols.append(("same-markup:differs", "HTMLTextDocument.render() does not insert the listing and dependency markup "
                      "HTMLDocument puts in <head> for the same dependencies",
                      {"HTMLDocument": ha[a0:a1], "HTMLTextDocument": hb[b0:b1]}))
    na = [(d.name, str(d.version), type(d).__name__) for d in ra["dependencies"]]
    nb = [(d.name, str(d.version), type(d).__name__) for d in rb["dependencies"]]
    if na != nb:
        viols.append(("same-markup:dependency-list", "the two documents return different dependency lists",
                      {"HTMLDocument": na, "HTMLTextDocument": nb}))
    if hb[:b0] + hb[b1:] != text.replace(PLACEHOLDER, ""):
        viols.append(("same-markup:other-text-touched", "text outside the placeholder changed", {"observed": hb}))
    return (True, len(ta), viols, 2)


def plan(tier):
    singles = Prod(Const(FIELDS), Const(HOSTILE), Const(INDENTS))
    out = [dict(kind="space", name="single-field", space=singles, fn=fn_single, execs=3,
                note=f"{len(FIELDS)} fields x {len(HOSTILE)} hostile strings x indent {INDENTS}")]
    nmax = 3
    docs = [Prod(Seq(Const(SURROUND + [PLACEHOLDER + "<p>" + PLACEHOLDER]), 1, 1), Const([[]]), Const([None]))]
    for n in range(1, nmax + 1):
        sur = SURROUND if (tier != "quick" or n < 2) else (SURROUND[:5] if n == 2 else SURROUND[2:5])
        docs.append(Prod(Seq(Const(sur), n + 1, n + 1),
                         Seq(Const(list(range(len(DOC_DEPS)))), n, n),
                         Const([None, "mixed"] if n > 1 else INDENTS)))
    from ..space import Alt
    out.append(dict(kind="space", name="documents", space=Alt(*docs), fn=fn_document, execs=2,
                    note=f"documents of 1..{nmax} serialised copies of {len(DOC_DEPS)} dependencies "
                         f"(repeats allowed) interleaved with {len(SURROUND)} surrounding texts"))
    exd = []
    for n in (1, 2):
        exd.append(Prod(Seq(Const(SURROUND[:2] + [PLACEHOLDER]), n + 1, n + 1), Seq(Const(list(range(len(DOC_DEPS)))), n, n),
                        Const([None, 2]), Const(["same-name-older", "unrelated", "identical"])))
    out.append(dict(kind="space", name="documents-with-explicit-deps", space=Alt(*exd), fn=fn_document, execs=2,
                    note="the constructor is ALSO given dependencies (same name as an embedded one but older; unrelated; identical): "
                         "every embedded serialisation is still recovered, after the given ones"))
    out.append(dict(kind="space", name="version-spellings", space=Prod(Const(VERSIONS), Const(INDENTS)), fn=fn_version,
                    note="version strings whose normalised form differs from the typed one"))
    out.append(dict(kind="space", name="json-mode", space=Prod(Const(list(range(len(JSON_TREES)))), Const(JSON_PRE)),
                    fn=fn_jsonmode, execs=3, note="JSON render mode end-to-end", serial=True))
    kinds = [k for k, _ in DIFF_DEPS]
    out.append(dict(kind="space", name="same-markup-as-HTMLDocument", fn=fn_samemarkup, execs=2,
                    space=Prod(Const([list(c) for n in range(1, 3 if tier == "quick" else 4)
                                      for c in itertools.permutations(kinds, n)]),
                               Const(["lib", None, "/abs/p", "p/"]), Const([True, False])),
                    note="1..2 (thorough 3) distinct dependencies, in every order, from plain / '&' in the name / URL source / head given as a Tag / "
                         "as a list / user subclasses overriding as_html_tags(), as_dict() or source_path_map() x lib_prefix "
                         "x include_version: HTMLTextDocument.render(deps=...) vs HTMLDocument.render(), token streams"))
    if tier == "thorough":
        fh = Prod(Const(FIELDS), Const(HOSTILE[:12]))
        out.append(dict(kind="space", name="field-pairs", space=Prod(fh, fh, Const([None, 2])),
                        fn=fn_pair, execs=3, note="all unordered pairs of distinct fields x hostile strings"))
    return out
