"""C11 - HTMLDocument builds one head/body and hoists every dependency into head.

E1 x E3: content shapes x items x construction mode x html attributes x lib_prefix x
include_version.  Oracles: (i) byte equality with the reference document R9 (assembled from
plain tags, rendered by the library's ordinary renderer); (ii) independent structural
assertions on the R2 token tree; (iii) returned dependency list == R8's list by value.
"""
from __future__ import annotations

import os

import hashlib

from ..ref.deps import build_dep, head_payload, resolve_infos, version_text
from ..ref.tokens import TokenError, tokenize, to_tree
from ..space import Alt, Const, Map, Prod, Seq
from ..spec import B, I, E, T, build
from .c09 import expand

ID = "C11"
LEVEL = "model_checking"
RULE = ("contents: fragments of 0-2 items (quick) / 0-3 (thorough); lone <body> with 0-2 items; lone "
        "<html> with head at child position none/0/1/last, head with 0-2 own children (tag / dependency), "
        "with/without <body>, with/without a dependency directly under <html>; items from {text, block, "
        "inline, 3 dependencies (same name two versions, URL source), head_content(tag), head_content"
        "(text), nested holder, tagifiable} x {given at construction, appended} x html attributes "
        "{none, lang, class_} x lib_prefix {'lib', None, 'a/b'} x include_version. Non-trivial = "
        "document with >= 1 dependency. Distinct by construction.")
ASSUMPTIONS = [
    "R9 assembles the <html> tree from plain tags and renders it with the library's renderer "
    "(layout is C06's business); html attribute arguments never collide with the user's own "
    "<html> attributes (statement silent on precedence)",
    "dependencies nested inside head_content() are not generated (statement silent)",
]

D_A1 = {"name": "a", "version": "1.0", "source": {"subdir": "libdir"}, "script": [{"src": "a.js"}],
        "stylesheet": [{"href": "a b.css"}], "meta": [{"name": "am", "content": "ac"}]}
D_A2 = {"name": "a", "version": "2.0", "source": {"subdir": "libdir"}, "script": [{"src": "a2.js", "defer": ""}],
        "head": "<link rel=\"icon\"/>"}
D_URL = {"name": "u", "version": "0.1.5", "source": {"href": "https://cdn.example/u/"},
         "script": [{"src": "u.js"}], "stylesheet": [{"href": "u.css", "media": "print"}]}
D_URL2 = {"name": "u2", "version": "1", "source": {"href": "https://cdn.example/u/"},
          "script": [{"src": "u.js"}], "meta": [{"name": "am", "content": "ac"}], "head": "<link rel=\"icon\"/>"}
# head given as objects rather than text: one childless Tag passed directly; a list mixing tags and text
D_HEADTAG = {"name": "ht", "version": "1.0", "head_form": "tag",
             "head_spec": [E("link", True, [], [["rel", "preload"], ["href", "x.woff"]])]}
D_HEADLIST = {"name": "hl", "version": "1.1", "script": [{"src": "hl.js"}], "source": {"subdir": "libdir"},
              "head_form": "list",
              "head_spec": [E("meta", True, [], [["name", "hm"], ["content", "1"]]), T("a<b & c"),
                            E("title", True, [T("hl-title")])]}
D_HEADTL = {"name": "htl", "version": "0.3", "head_form": "taglist",
            "head_spec": [E("script", True, [], [["src", "only-attr.js"]])]}
HC_TAG = ["HC", [E("title", True, [T("Tt")])]]
HC_TXT = ["HC", [T("plain & text")]]
ITEMS = [T("txt"), B([T("b")]), I([T("i")]), ["DI", D_A1], ["DI", D_A2], ["DI", D_URL], HC_TAG, HC_TXT,
         B([["DI", D_A1], I([["DI", D_URL], T("n")])]), ["X", B([T("xb"), ["DI", D_A2]])],
         E("img", False, [["DI", D_URL]], [["src", "i.png"]]),
         # shares its script URL with D_URL, its meta with D_A1 and its head markup with D_A2
         ["DI", D_URL2],
         # a <body> / <html> tag that is NOT the sole content is ordinary content
         E("body", True, [T("inner-body"), ["DI", D_A1]]),
         E("html", True, [E("body", True, [T("inner-html")])], [["lang", "xx"]]),
         # head_content whose payload is an object that is tagifiable and self-rendering (as a JSX
         # component is): the document shows its expansion
         ["HC", [["XR", E("title", True, [T("xr-title")]), "<title>xr-title</title>"]]]]
# items outside the main alphabet: dependency heads given as objects; document-level tag names
D_AMP = {"name": "R&D <w>", "version": "1.0", "source": {"subdir": "libdir"}, "script": [{"src": "amp.js"}]}
EXTRA_ITEMS = [["DI", D_AMP], ["DI", D_HEADTAG], ["DI", D_HEADLIST], ["DI", D_HEADTL], E("title", True, [T("doc-title")]),
               E("base", False, [], [["href", "/"]]), E("meta", True, [], [["name", "viewport"]]),
               E("link", True, [], [["rel", "icon"]]), E("head", True, [T("inner-head")]),
               # tagifiable objects whose expansion is a <body> / <html> tag, or a list holding just that
               ["X", E("body", True, [T("xb"), ["DI", D_A1]], [["class", "from-object"]])],
               ["X", E("html", True, [E("body", True, [T("xh")])], [["lang", "xx"]])],
               ["X", ["L", [E("body", True, [T("xlb")])]]],
               # dependencies whose NAME is a structural tag name
               ["DI", {"name": "head", "version": "1.0", "script": [{"src": "h.js"}], "source": {"href": "https://cdn/h"}}],
               ["DI", {"name": "body", "version": "1.0"}], ["DI", {"name": "html", "version": "2.0", "head": "<meta name=\"html-dep\"/>"}]]
HEADKIDS = [E("title", True, [T("user title")]), ["DI", D_A2], E("link", True, [], [["rel", "x"]]), HC_TAG,
            E("meta", True, [], [["charset", "iso-8859-1"]])]
ATTRS = [[], [["lang", "en"]], [["class_", "k"]]]
PREFIXES = ["lib", None, "a/b", "/abs/p"]


# ------------------------------------------------------------ reference (R9)
def info_of(spec):
    if spec[0] == "DI":
        return spec[1]
    if spec[0] == "HC":
        from htmltools import TagList
        markup = TagList(*[build(c) for c in spec[1]]).get_html_string()
        nodes = []
        for c in spec[1]:
            nodes.extend(expand(c))
        return {"name": "headcontent_" + hashlib.sha1(markup.encode("utf-8")).hexdigest(),
                "version": "0.0", "head": markup, "head_spec": nodes}
    return None


def collect_infos(spec, acc):
    i = info_of(spec)
    if i is not None:
        acc.append(i)
    elif spec[0] == "E":
        for c in spec[4]:
            collect_infos(c, acc)


def ref_document(content, attrs, lib_prefix, include_version):
    """-> (html string, resolved infos)"""
    from htmltools import Tag
    cont = []
    for c in content:
        cont.extend(expand(c))
    kw = {k: v for k, v in attrs}
    if len(cont) == 1 and cont[0][0] == "E" and cont[0][1] == "html":
        root_spec = cont[0]
        kids_specs = list(root_spec[4])
        own_attrs = {k: v for k, v in root_spec[3]}
        root_ws = root_spec[2]
    else:
        if len(cont) == 1 and cont[0][0] == "E" and cont[0][1] == "body":
            body_spec = cont[0]
        else:
            body_spec = ["E", "body", True, [], cont]
        kids_specs = [["E", "head", True, [], []], body_spec]
        own_attrs = {}
        root_ws = True
    infos = []
    for k in kids_specs:
        collect_infos(k, infos)
    resolved = resolve_infos(infos)
    hi = next((i for i, k in enumerate(kids_specs) if k[0] == "E" and k[1] == "head"), None)
    if hi is None:
        kids_specs.insert(0, ["E", "head", True, [], []])
        hi = 0
    head_spec = kids_specs[hi]
    kids = [build(k) for k in kids_specs]
    head = Tag("head", Tag("meta", charset="utf-8"), *[build(c) for c in head_spec[4]],
               *head_payload(resolved, lib_prefix, include_version), _add_ws=bool(head_spec[2]))
    for k, v in head_spec[3]:
        head.attrs.update({k: v})
    kids[hi] = head
    html = Tag("html", *kids, _add_ws=bool(root_ws))
    for k, v in own_attrs.items():
        html.attrs.update({k: v})
    html.attrs.update(**kw)
    return "<!DOCTYPE html>\n" + html.get_html_string(), resolved


def dep_value(d):
    return (d.name, str(d.version), repr(d.source), repr(d.script), repr(d.stylesheet), repr(d.meta),
            None if d.head is None else d.head.get_html_string())


def head_markup(i):
    if i.get("head_spec") is not None and i.get("head_form"):
        from htmltools import TagList
        return TagList(*[build(c) for c in i["head_spec"]]).get_html_string()
    return i.get("head")


def info_value(i):
    st = [dict(s, **({} if "rel" in s else {"rel": "stylesheet"})) for s in i.get("stylesheet") or []]
    return (i["name"], version_text(i["version"]), repr(i.get("source")), repr(i.get("script") or []),
            repr(st), repr(i.get("meta") or []), head_markup(i))


# -------------------------------------------------------- structural checks
def structural(out, resolved, user_head_specs, viols):
    if not out.startswith("<!DOCTYPE html>\n"):
        viols.append(("struct:doctype", "output does not start with the doctype line", {"observed": out[:60]}))
        return
    try:
        nodes = to_tree(tokenize(out))
    except TokenError as e:
        viols.append(("struct:untokenizable", f"document does not tokenize: {e}", {"observed": out}))
        return
    roots = [n for n in nodes if not isinstance(n, str) or n.strip()]
    if len(roots) != 2 or roots[0][3] != "doctype" or isinstance(roots[1], str) or roots[1][0] != "html":
        viols.append(("struct:root", "document is not doctype + a single <html> element", {"observed": out}))
        return
    html = roots[1]
    heads = [c for c in html[2] if not isinstance(c, str) and c[0] == "head"]
    if len(heads) != 1:
        viols.append(("struct:one-head", f"<html> has {len(heads)} direct <head> children", {"observed": out}))
        return
    hk = [c for c in heads[0][2] if not isinstance(c, str) or c.strip()]
    if not hk or isinstance(hk[0], str) or hk[0][0] != "meta" or hk[0][1] != [("charset", "utf-8")] or hk[0][3] != "void":
        viols.append(("struct:meta-charset-first", "<head> does not start with <meta charset=\"utf-8\"/>",
                      {"observed": out}))
        return

    def all_elems(node):
        for c in node[2]:
            if not isinstance(c, str):
                yield c
                yield from all_elems(c)
    listing = [e for e in all_elems(html) if e[0] == "script"
               and ("type", "application/html-dependencies") in e[1]]
    want = ";".join(i["name"] + "[" + version_text(i["version"]) + "]" for i in resolved)
    if resolved:
        if len(listing) != 1 or "".join(c for c in listing[0][2] if isinstance(c, str)) != want:
            viols.append(("struct:listing", "dependency listing script missing, duplicated or wrong",
                          {"expected": want, "observed": [l[2] for l in listing]}))
            return
        if listing[0] not in hk:
            viols.append(("struct:listing-not-in-head", "listing script is not a direct child of <head>", {}))
    elif listing:
        viols.append(("struct:listing-without-deps", "listing script present without dependencies", {}))
    # dependency markup: every script src / link href of every resolved dependency exactly once, in head
    body_like = [c for c in html[2] if not isinstance(c, str) and c[0] != "head"]

    def srcs(node, acc):
        for e in all_elems(node):
            for k, v in e[1]:
                if (e[0], k) in (("script", "src"), ("link", "href")):
                    acc.append(v)
        return acc
    outside = []
    for b in body_like:
        if b[0] in ("script", "link"):
            outside += [v for k, v in b[1] if k in ("src", "href")]
        srcs(b, outside)
    if outside:
        viols.append(("struct:dep-markup-outside-head", "dependency markup found outside <head>",
                      {"observed": outside}))
    in_head = srcs(heads[0], [])
    for i in resolved:
        for s in (i.get("script") or []):
            n = sum(1 for v in in_head if v.endswith("/" + s["src"]) or v == s["src"])
            n_exp = sum(1 for j in resolved for t in (j.get("script") or [])
                        if t["src"] == s["src"] and (j is i or j.get("source") == i.get("source") or True))
            if n != n_exp:
                viols.append(("struct:dep-markup-count", f"script {s['src']} of {i['name']} appears {n} times in <head>",
                              {"observed": in_head}))


def nontrivial(content):
    acc = []
    for c in content:
        for e in expand(c):
            collect_infos(e, acc)
    return bool(acc)


def fn(case):
    from htmltools import HTMLDocument
    content, mode, attrs, prefix, incv = case
    viols = []
    kw = {k: v for k, v in attrs}
    objs = [build(c) for c in content]
    if mode == "ctor":
        doc = HTMLDocument(*objs, **kw)
    elif mode == "taglist-shared":
        # the content is handed over as ONE TagList which is also used for a second document that is
        # appended to: the first document must not see what the second one received
        from htmltools import TagList, Tag
        tl = TagList(*objs)
        n0 = len(tl)
        doc = HTMLDocument(tl, **kw)
        other = HTMLDocument(tl)
        other.append(Tag("p", "other-doc"), build(["DI", D_URL]))
        other.render()
        if len(tl) != n0:
            viols.append(("document:aliases-content", "appending to a document changed the TagList it was built from", {}))
    elif mode == "append":
        doc = HTMLDocument(**kw)
        for o in objs:
            doc.append(o)
    elif mode == "ctor+append":
        doc = HTMLDocument(*objs[:1], **kw)
        if objs[1:]:
            doc.append(*objs[1:])
    elif mode == "render-mutate-render":
        # history: the document is rendered, then a tag INSIDE its content is changed through the
        # Tag API (not through the document), then it is rendered again
        doc = HTMLDocument(*objs, **kw)
        doc.render(lib_prefix=prefix, include_version=incv)
        idx = next((i for i, c in enumerate(content) if c[0] == "E" and c[1] not in ("html", "body")), None)
        if idx is not None:
            objs[idx].append("late-text", build(["DI", D_URL]))
            objs[idx].add_class("late")
            c = content[idx]
            cattrs = [a for a in c[3]]
            cur = next((a for a in cattrs if a[0] == "class"), None)
            if cur:
                cattrs = [[a[0], a[1] + " late"] if a[0] == "class" else a for a in cattrs]
            else:
                cattrs = cattrs + [["class", "late"]]
            content = list(content)
            content[idx] = ["E", c[1], c[2], cattrs, c[4] + [T("late-text"), ["DI", D_URL]]]
    elif mode == "render-append-render":
        # history: render once before the rest of the content is appended
        doc = HTMLDocument(*objs[:1], **kw)
        doc.render()
        doc.render(lib_prefix=None)
        if objs[1:]:
            doc.append(*objs[1:])
    else:
        # history: empty document rendered first, then everything appended
        doc = HTMLDocument(**kw)
        doc.render()
        doc.append(*objs) if objs else None
    r = doc.render(lib_prefix=prefix, include_version=incv)
    exp_html, resolved = ref_document(content, attrs, prefix, incv)
    if r["html"] != exp_html:
        viols.append(("document:html", "document differs from the reference assembly",
                      {"observed": r["html"], "expected": exp_html}))
    got = [dep_value(d) for d in r["dependencies"]]
    exp = [info_value(i) for i in resolved]
    if got != exp:
        viols.append(("document:dependencies", "returned dependency list is not the resolved list",
                      {"observed": [g[:2] for g in got], "expected": [e[:2] for e in exp]}))
    structural(r["html"], resolved, None, viols)
    return (nontrivial(content), len(resolved), viols, 1)


def html_variants(items_space):
    """lone <html> contents."""
    def mk(c):
        headpos, headkids, body, under = c
        kids = []
        if under:
            kids.append(["DI", D_URL])
        if body is not None:
            kids.append(["E", "body", True, [], body])
        head = ["E", "head", True, [], headkids]
        if headpos == "0":
            kids.insert(0, head)
        elif headpos == "1":
            kids.insert(min(1, len(kids)), head)
        elif headpos == "last":
            kids.append(head)
        return [["E", "html", True, [["data-own", "1"]], kids]]
    bodies = Alt(Const([None]), Seq(items_space, 0, 1))
    return Map(Prod(Const(["none", "0", "1", "last"]), Seq(Const(HEADKIDS), 0, 2), bodies,
                    Const([False, True])), mk)


def name_cases():
    import json
    cat = json.load(open(os.path.join(os.path.dirname(os.path.abspath(__file__)), "c19_catalogue.json")))
    names = list(dict.fromkeys(cat["tags"] + cat["svg"]))
    out = []
    for n in names:
        out.append([E(n, True, [T("x")])])
        out.append([E(n, False, [T("x")], [["id", "i"]]), T("txt")])
        out.append([T("a"), E(n, True, [], []), ["DI", D_A1]])
        out.append([E("div", True, [E(n, True, [T("nested")])])])
    return out


_ENV_SCRIPT = r'''
import json, sys
sys.path.insert(0, sys.argv[1])
from htmltools import HTMLDocument, HTMLDependency, Tag, head_content
docs = {
    "fragment": HTMLDocument(Tag("p", "caf\u00e9 \u4e2d"), HTMLDependency("a", "1.0", source={"subdir": "libdir"}, script={"src": "a.js"})),
    "own-html": HTMLDocument(Tag("html", Tag("head", Tag("title", "t")), Tag("body", "b")), lang="en"),
    "empty": HTMLDocument(),
    "head-content": HTMLDocument(Tag("div", "x", head_content(Tag("title", "hc")))),
}
print(json.dumps({k: d.render()["html"] for k, d in docs.items()}))
'''
ENVS = {
    "C-locale-no-utf8-mode": (dict(LC_ALL="C", LANG="C", PYTHONUTF8="0", PYTHONCOERCECLOCALE="0", PYTHONIOENCODING="utf-8"), []),
    "latin1-stdio": (dict(PYTHONUTF8="0", PYTHONIOENCODING="latin-1:backslashreplace", LC_ALL="C"), []),
    "optimised": ({}, ["-O"]),
    "isolated": ({}, ["-I"]),
}


def fn_env(envname):
    """the same documents rendered by a fresh interpreter in another process environment (C locale without UTF-8 mode,
    latin-1 standard streams, -O, -I): byte-identical to this process, <head> starting with <meta charset="utf-8"/>."""
    import json
    import subprocess
    import sys
    from .. import REPO
    extra, flags = ENVS[envname]
    env = dict(os.environ, PYTHONDONTWRITEBYTECODE="1", **extra)
    p = subprocess.run(["/venv/bin/python", *flags, "-c", _ENV_SCRIPT, REPO], capture_output=True, env=env, timeout=120)
    viols = []
    if p.returncode != 0:
        return (True, "crash", [(f"environment:{envname}:crash", p.stderr.decode("utf-8", "replace")[-400:], {})], 1)
    theirs = json.loads(p.stdout.decode("ascii"))
    here = subprocess.run(["/venv/bin/python", "-c", _ENV_SCRIPT, REPO], capture_output=True, timeout=120,
                          env=dict(os.environ, PYTHONDONTWRITEBYTECODE="1"))
    mine = json.loads(here.stdout.decode("ascii"))
    for k in mine:
        if theirs.get(k) != mine[k]:
            viols.append((f"environment:{envname}", f"document {k!r} rendered under {envname} differs from the default environment",
                          {"observed": theirs.get(k), "expected": mine[k]}))
        if '<head>\n    <meta charset="utf-8"/>' not in theirs.get(k, ""):
            viols.append((f"environment:{envname}:charset", f"document {k!r}: <head> does not start with <meta charset=\"utf-8\"/>",
                          {"observed": theirs.get(k)}))
    return (True, envname, viols, 2)


def plan(tier):
    return plan0(tier) + plan_extra(tier) + [
        dict(kind="space", name="other-process-environments", fn=fn_env, space=Const(list(ENVS)), serial=True,
             note="4 documents rendered by fresh interpreters under 4 process environments (C locale without UTF-8 mode, latin-1 "
                  "standard streams, -O, -I): identical bytes, charset utf-8")]


def plan_extra(tier):
    NOHEAD_ITEMS = [x for x in EXTRA_ITEMS if not (x[0] == "E" and x[1] == "head")]
    it2 = Const([T("txt"), B([T("b")]), ["DI", D_A1], HC_TAG] + EXTRA_ITEMS)
    if tier == "quick":
        content = Alt(Seq(it2, 0, 2), Map(Seq(it2, 0, 1), lambda ks: [["E", "body", True, [["class", "bd"]], ks]]),
                      Map(Seq(Const(EXTRA_ITEMS), 0, 1), lambda ks: [["E", "html", True, [], [
                          ["E", "head", True, [], [E("title", True, [T("user title")])]], ["E", "body", True, [], ks]]]]),
                      # the user's own <html> with an item BEFORE its <head>, and between head and body
                      Map(Seq(Const(NOHEAD_ITEMS), 1, 1), lambda ks: [["E", "html", True, [], ks + [
                          ["E", "head", True, [["data-h", "1"]], [E("title", True, [T("user title")])]], ["E", "body", True, [], [T("b")]]]]]),
                      Map(Seq(Const(NOHEAD_ITEMS), 1, 1), lambda ks: [["E", "html", True, [], [
                          ["E", "head", False, [], []]] + ks + [["E", "body", True, [], [T("b")]]]]]))
    else:
        content = Alt(Seq(it2, 0, 2), Map(Seq(it2, 0, 2), lambda ks: [["E", "body", True, [["class", "bd"]], ks]]),
                      html_variants(Const(EXTRA_ITEMS)))
    if tier == "quick":
        cfg = Prod(Const(["ctor", "append", "render-mutate-render"]), Const(ATTRS[:2]), Const(["lib", None]), Const([True, False]))
    else:
        cfg = Prod(Const(["ctor", "append", "ctor+append", "render-append-render", "render-empty-then-append",
                          "taglist-shared", "render-mutate-render"]), Const(ATTRS), Const(PREFIXES), Const([True, False]))
    names = Const(name_cases())
    ncfg = Prod(Const(["ctor", "append"]), Const(ATTRS[:2]), Const(["lib"]), Const([True]))
    return [
        dict(kind="space", name="object-heads-and-document-level-tags", fn=fn,
             space=Map(Prod(content, cfg), lambda c: (c[0],) + tuple(c[1])),
             note=f"{content.size} contents over dependencies whose head is a Tag / list / TagList object and top-level "
                  "<title>/<base>/<meta>/<link>/<head> tags (ordinary content: they stay where the user put them)"),
        dict(kind="space", name="every-catalogue-tag-name-as-content", fn=fn,
             space=Map(Prod(names, ncfg), lambda c: (c[0],) + tuple(c[1])),
             note=f"{names.size} contents: every HTML and SVG tag name of the catalogue as sole content, beside text, "
                  "beside a dependency, and nested"),
    ]


def plan0(tier):
    items = Const(ITEMS)
    nfrag = 2 if tier == "quick" else 3
    frag = Seq(items, 0, nfrag)
    body = Map(Seq(items, 0, 2), lambda ks: [["E", "body", True, [["class", "bd"]], ks]])
    htmlv = html_variants(items)
    content = Alt(frag, body, htmlv)
    if tier == "quick":
        cfg = Prod(Const(["ctor", "append", "render-append-render", "render-empty-then-append", "taglist-shared",
                          "render-mutate-render"]), Const(ATTRS[:2]),
                   Const(["lib", None]), Const([True]))
        cfg2 = Prod(Const(["ctor"]), Const(ATTRS[:2]), Const(PREFIXES), Const([True, False]))
        small = Alt(Seq(items, 0, 1), Map(Seq(items, 0, 1), lambda ks: [["E", "body", True, [], ks]]),
                    html_variants(Const(ITEMS[:4])))
        return [
            dict(kind="space", name="contents-x-mode-attrs", fn=fn,
                 space=Map(Prod(content, cfg), lambda c: (c[0],) + tuple(c[1])),
                 note=f"{content.size} contents x construction mode x html attrs x lib_prefix {{'lib',None}}"),
            dict(kind="space", name="small-contents-x-all-configs", fn=fn,
                 space=Map(Prod(small, cfg2), lambda c: (c[0],) + tuple(c[1])),
                 note=f"{small.size} small contents x all lib_prefix x include_version"),
        ]
    cfg = Prod(Const(["ctor", "append", "ctor+append", "render-append-render", "render-empty-then-append", "taglist-shared",
                      "render-mutate-render"]),
               Const(ATTRS), Const(PREFIXES), Const([True, False]))
    return [dict(kind="space", name="contents-x-all-configs", fn=fn,
                 space=Map(Prod(content, cfg), lambda c: (c[0],) + tuple(c[1])),
                 note=f"{content.size} contents x 3 construction modes x html attrs x lib_prefix x include_version")]
