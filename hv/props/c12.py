"""C12 - dependency URLs and copied files agree.   (level: fault_enumeration)

E3: full product of file names x all_files x source kind x libdir x include_version x
pre-existing target state x caller, on real files in a private temporary directory; faults:
every explicitly listed file missing, one at a time (thorough: every pair).
"""
from __future__ import annotations

import html as _html
import os
import shutil
import sys
import tempfile
import urllib.parse

from ..ref.deps import dep_href, join_url, pct_encode, version_text
from ..ref.tokens import TokenError, tokenize
from ..space import Alt, Const, Map, Prod

ID = "C12"
LEVEL = "fault_enumeration"
RULE = ("full product: script file(s) from a 17-name alphabet (incl. a scheme-like 'ui:main.js' and a name in decomposed Unicode form) (space % # ? + ; & ' \" <> %41 non-ASCII leading-dot "
        "nested-dir plain; singles and adjacent pairs) x stylesheet {none, one} x all_files x source "
        "{directory, importable package, URL with/without trailing slash, none} x libdir {'lib', None, "
        "'x/y'} x include_version x pre-existing target {absent, stale file, stale sub-directory} x "
        "caller {document, tag, list, copy_to}; faults: each explicitly listed file missing (one at "
        "a time; thorough: every pair). Non-trivial = configuration that copies >= 1 file or injects "
        "a fault. Distinct by construction.")
ASSUMPTIONS = [
    "dependency names, versions and libdir values range over [A-Za-z0-9_.-/] only (the directory "
    "part of a URL is not percent-encoded by the library and the statement writes it literally)",
    "real file system under a tempfile.mkdtemp() directory created by the run and removed afterwards",
]

FILES = ["plain.js", "sp ace.js", "pct%.js", "hash#.js", "q?.js", "plus+.js", "semi;.js", "amp&.js",
         "apos'.js", 'quot".js', "lt<gt>.js", "%41.js", "é中.js", "sub/dir/n.js", ".dot.js", ".d.d/..in.js", "ui:main.js", "re\u0301sume\u0301.js"]
STYLE = "st yle&.css"
EXTRA = ["extra.txt", "assets/img.bin", ".hidden.css", ".dotdir/inner.js"]
_FX = {}


def setup(ctx):
    root = tempfile.mkdtemp(prefix="hv-c12-")
    _FX["root"] = root
    pk = "hvpkg12"
    os.makedirs(os.path.join(root, pk, "res"))
    open(os.path.join(root, pk, "__init__.py"), "w").close()
    for base in (os.path.join(root, "src"), os.path.join(root, pk, "res")):
        populate(base)
    os.makedirs(os.path.join(root, "t"))
    sys.path.insert(0, root)
    _FX["pkg"] = pk


def populate(base, skip=()):
    for i, f in enumerate(FILES + [STYLE] + EXTRA):
        if f in skip:
            continue
        p = os.path.join(base, f)
        os.makedirs(os.path.dirname(p), exist_ok=True)
        with open(p, "wb") as fh:
            fh.write(f"content-{i}-{f}".encode("utf-8") * 3)


def teardown(ctx):
    root = _FX.get("root")
    if root and os.path.isdir(root):
        shutil.rmtree(root, ignore_errors=True)
    if root in sys.path:
        sys.path.remove(root)


def src_dir_for(kind, missing=()):
    root = _FX["root"]
    if not missing:
        return os.path.join(root, "src") if kind == "dir" else os.path.join(root, _FX["pkg"], "res")
    key = "miss-" + "-".join(str((FILES + [STYLE]).index(m)) for m in missing)
    if kind == "dir":
        base = os.path.join(root, key)
    else:
        base = os.path.join(root, _FX["pkg"], key)
    if not os.path.isdir(base):
        tmp = base + f".tmp{os.getpid()}"
        populate(tmp, skip=missing)
        try:
            os.rename(tmp, base)
        except OSError:
            shutil.rmtree(tmp, ignore_errors=True)
    return base


def listing(d):
    out = []
    for dp, dns, fns in os.walk(d):
        for n in dns:
            out.append(os.path.relpath(os.path.join(dp, n), d) + "/")
        for n in fns:
            p = os.path.join(dp, n)
            out.append((os.path.relpath(p, d), open(p, "rb").read()))
    return sorted(out, key=lambda x: x if isinstance(x, str) else x[0])


PAGE_TEXT = "x \u00e9\u4e2d\U0001F600 <&>"
IDENT = {"safe": ("my.dep_1", "1.2.3"), "spaced": ("my widget,x", "1.0+b.5"), "same-dict-twice": ("my.dep_1", "1.2.3")}


def make_dep(scripts, style, all_files, source_kind, missing=(), ident="safe"):
    from htmltools import HTMLDependency
    slash = "/" if source_kind in ("dir/", "package/") else ""       # the sub-directory spelled with a trailing slash
    source_kind = source_kind.rstrip("/") if slash else source_kind
    if source_kind == "dir":
        source = {"subdir": src_dir_for("dir", missing) + slash}
    elif source_kind == "package":
        sub = os.path.basename(src_dir_for("package", missing))
        source = {"package": _FX["pkg"], "subdir": sub + slash}
    elif source_kind == "url/":
        source = {"href": "https://cdn.example/base/"}
    elif source_kind == "url":
        source = {"href": "https://cdn.example/base"}
    else:
        source = None
    kw = {}
    if source is not None:
        kw["source"] = source
    if ident == "same-dict-twice":
        d = {"src": scripts[0]}
        return HTMLDependency(IDENT["safe"][0], IDENT["safe"][1], script=[d, d],
                              stylesheet=[{"href": style}] if style else [], all_files=all_files, **kw)
    return HTMLDependency(IDENT[ident][0], IDENT[ident][1], script=[{"src": s} for s in scripts],
                          stylesheet=[{"href": style}] if style else [], all_files=all_files, **kw)


def fn(case):
    from htmltools import HTMLDocument, Tag, TagList
    scripts, style, all_files, source_kind, libdir, incv, stale, caller, missing = case[:9]
    ident = case[9] if len(case) > 9 else "safe"
    if ident == "same-dict-twice":
        scripts = [scripts[0], scripts[0]]
    dname, dver = IDENT[ident]
    viols = []
    tdir = tempfile.mkdtemp(prefix="c", dir=os.path.join(_FX["root"], "t"))
    if libdir == "ABS":
        libdir = os.path.join(tdir, "abs.lib")       # an absolute libdir (starts with '/')
    try:
        dep = make_dep(scripts, style, all_files, source_kind, missing, ident)
        info = {"name": dname, "version": dver, "source": dep.source}
        local = source_kind in ("dir", "package", "dir/", "package/")
        destdir = os.path.join(tdir, libdir) if libdir else tdir
        target = os.path.join(destdir, dname + ("-" + dver if incv else ""))
        if stale == "file":
            os.makedirs(target)
            with open(os.path.join(target, "STALE.txt"), "w") as f:
                f.write("old")
            if scripts and "/" not in scripts[0]:
                with open(os.path.join(target, scripts[0]), "w") as f:
                    f.write("old version of a listed file")
        elif stale == "dir":
            os.makedirs(os.path.join(target, "staledir", "deep"))
            with open(os.path.join(target, "staledir", "deep", "x"), "w") as f:
                f.write("old")
        file = os.path.join(tdir, "index.html")
        if stale != "absent" and caller != "copy_to":
            # the page itself is being saved a second time: an older, much longer page is already there
            with open(file, "w", encoding="utf-8") as f:
                f.write("<html><body>" + "STALE-PAGE-CONTENT <img src=\"lib/old/logo.png\"/>\n" * 400 + "</body></html>\n")
        before = listing(tdir)
        listed = list(scripts) + ([style] if style else [])
        expect_raise = bool(missing) and local and not all_files
        try:
            if caller == "document":
                ret = HTMLDocument(Tag("p", PAGE_TEXT), dep).save_html(file, libdir=libdir, include_version=incv)
            elif caller == "tag":
                ret = Tag("div", "x", dep).save_html(file, libdir=libdir, include_version=incv)
            elif caller == "list":
                ret = TagList("x", Tag("span", dep)).save_html(file, libdir=libdir, include_version=incv)
            else:
                dep.copy_to(destdir, include_version=incv)
                ret = None
            raised = None
        except Exception as e:
            raised = e
        if expect_raise:
            if raised is None:
                viols.append(("fault:no-error", f"listed file(s) {missing} missing but copying did not raise", {}))
            after = listing(tdir)
            if after != before:
                viols.append(("fault:target-touched", "copy raised for a missing listed file but the "
                              "destination tree changed", {"before": [b if isinstance(b, str) else b[0] for b in before],
                                                           "after": [a if isinstance(a, str) else a[0] for a in after]}))
            return (True, "fault", viols, 1)
        if raised is not None:
            viols.append(("unexpected-error", f"save_html/copy_to raised {raised!r}", {"case": case}))
            return (True, "raised", viols, 1)
        if caller != "copy_to" and ret != file:
            viols.append(("return-value", f"save_html returned {ret!r}, not the path written", {}))
        def check_tree(when):
            src_root_ = None if not local else dep.source_path_map()["source"]
            if local:
                if all_files:
                    if listing(target) != listing(src_root_):
                        viols.append(("all_files:tree-differs" + when, "target directory is not a copy of the whole source directory",
                                      {"target": [x if isinstance(x, str) else x[0] for x in listing(target)]}))
                else:
                    got = [x[0] for x in listing(target) if not isinstance(x, str)]
                    if sorted(got) != sorted(set(listed)):
                        viols.append(("copied-set" + when, "target directory does not hold exactly the listed files "
                                      "(stale contents must be gone)", {"observed": got, "expected": sorted(set(listed))}))
                    for rel in listed:
                        p = os.path.join(target, rel)
                        if os.path.isfile(p) and open(p, "rb").read() != open(os.path.join(src_root_, rel), "rb").read():
                            viols.append(("copied-file-differs" + when, f"{rel!r} differs from its source", {}))
            else:
                after = [x for x in listing(tdir) if (x if isinstance(x, str) else x[0]) != "index.html"]
                if after != [x for x in before if (x if isinstance(x, str) else x[0]) != "index.html"]:
                    viols.append(("nonlocal-copied-something" + when, "URL/source-less dependency changed the output directory",
                                  {"after": [a if isinstance(a, str) else a[0] for a in after]}))
        if local and stale == "dir":
            check_tree(":first-save")      # (the second save below must not hide what the first one left)
            # history: the same dependency is copied to the same destination a second time in this
            # process, after something stale has appeared there: it must be cleared again
            os.makedirs(os.path.join(target, "late-stale"), exist_ok=True)
            with open(os.path.join(target, "late-stale", "f.txt"), "w") as f:
                f.write("late")
            for rel in (list(scripts) + ([style] if style else []))[:1]:
                p = os.path.join(target, rel)
                if os.path.isfile(p):
                    with open(p, "w") as f:
                        f.write("tampered")
            dep2 = make_dep(scripts, style, all_files, source_kind, missing, ident)
            if caller == "copy_to":
                dep2.copy_to(destdir, include_version=incv)
            else:
                HTMLDocument(Tag("p", PAGE_TEXT), dep2).save_html(file, libdir=libdir, include_version=incv)
        # --- URLs
        src_root = None if not local else dep.source_path_map()["source"]
        if caller == "document":
            # the written file is the rendered document, as UTF-8 (the page declares charset utf-8)
            want = HTMLDocument(Tag("p", PAGE_TEXT), make_dep(scripts if ident != "same-dict-twice" else scripts[:1], style,
                                                              all_files, source_kind, missing, ident)
                                ).render(lib_prefix=libdir, include_version=incv)["html"]
            raw = open(file, "rb").read()
            if raw != want.encode("utf-8"):
                viols.append(("saved-file-differs-from-render", "the file written by save_html() is not the UTF-8 encoding "
                              "of render()['html']", {"observed": raw[:300].decode("utf-8", "replace")}))
        if caller != "copy_to":
            text = open(file, encoding="utf-8").read()
            if "STALE-PAGE-CONTENT" in text or not text.rstrip().endswith("</html>"):
                viols.append(("saved-file-keeps-old-content", "the file written by save_html() still holds (part of) the longer page "
                              "that was there before", {"tail": text[-200:]}))
            try:
                toks = tokenize(text)
            except TokenError as e:
                viols.append(("html-untokenizable", str(e), {"observed": text}))
                return (True, None, viols, 1)
            urls = []
            for t in toks:
                if t[0] in ("open", "void") and t[1] in ("script", "link"):
                    for k, v in t[2]:
                        if (t[1], k) in (("script", "src"), ("link", "href")):
                            urls.append(_html.unescape(v))
            if local:
                base = dname + ("-" + dver if incv else "")
                base = join_url(libdir, base) if libdir else base
            else:
                base = dep_href({"name": "x", "version": "1", "source": dep.source}, libdir, incv)
            exp_urls = [join_url(base, pct_encode(style))] if style else []
            exp_urls += [join_url(base, pct_encode(s)) for s in scripts]
            if urls != exp_urls:
                viols.append(("url-form", "script/stylesheet URLs are not prefix/name[-version]/percent-encoded path",
                              {"observed": urls, "expected": exp_urls}))
            if local:
                for u, rel in zip(urls, ([style] if style else []) + list(scripts)):
                    if rel in missing:
                        continue
                    p = os.path.normpath(os.path.join(tdir, urllib.parse.unquote(u)))
                    srcp = os.path.join(src_root, rel)
                    if not os.path.isfile(p):
                        viols.append(("url-dangling", f"URL {u!r} does not name a copied file", {"resolved": p}))
                    elif open(p, "rb").read() != open(srcp, "rb").read():
                        viols.append(("copied-file-differs", f"{u!r} is not byte-identical to its source", {}))
        check_tree("")
        return (local, (source_kind, all_files, stale), viols, 1)
    finally:
        shutil.rmtree(tdir, ignore_errors=True)


def fn_inplace(case):
    """the dependency's source directory IS the directory its files are to be copied to
    (libdir=None, include_version=False, source <dir-of-html>/<name>): saving must leave every
    source file in place and byte-identical, and the URLs must name them."""
    from htmltools import HTMLDependency, HTMLDocument, Tag
    files, all_files, caller = case[:3]
    nested = len(case) > 3 and case[3] == "source-inside-target"
    viols = []
    tdir = tempfile.mkdtemp(prefix="c", dir=os.path.join(_FX["root"], "t"))
    try:
        src = os.path.join(tdir, "widget", "dist") if nested else os.path.join(tdir, "widget")
        populate(src)
        before = listing(src)
        dep = HTMLDependency("widget", "1.0", source={"subdir": src}, script=[{"src": f} for f in files],
                             all_files=all_files)
        file = os.path.join(tdir, "index.html")
        try:
            if caller == "copy_to":
                dep.copy_to(tdir, include_version=False)
            else:
                HTMLDocument(Tag("p", "x"), dep).save_html(file, libdir=None, include_version=False)
        except Exception as e:
            # refusing is acceptable as long as nothing was destroyed
            if listing(src) != before:
                viols.append(("inplace:raised-and-destroyed", f"{type(e).__name__} raised and the source directory changed", {}))
            return (True, "raised", viols, 1)
        after = listing(src)
        lost = [x if isinstance(x, str) else x[0] for x in before if x not in after]
        if lost:
            viols.append(("inplace:source-destroyed", "saving into the dependency's own source directory deleted or "
                          "changed source files", {"lost": lost[:10]}))
        for f in files:
            if nested:
                break          # (target is an ancestor of the source: refusing is the only sane outcome)
            if not os.path.isfile(os.path.join(tdir, "widget", f)):
                viols.append(("inplace:url-dangling", f"widget/{f} does not exist after save_html", {}))
                break
        return (True, "saved", viols, 1)
    finally:
        shutil.rmtree(tdir, ignore_errors=True)


def fn_cwd(case):
    """paths relative to the current directory: a bare output file name, and a relative source
    sub-directory used from two different working directories in one process."""
    from htmltools import HTMLDependency, HTMLDocument, Tag
    what, libdir, incv = case
    viols = []
    tdir = tempfile.mkdtemp(prefix="c", dir=os.path.join(_FX["root"], "t"))
    old = os.getcwd()
    try:
        projects = []
        for pn in ("proj1", "proj2"):
            pd = os.path.join(tdir, pn)
            os.makedirs(os.path.join(pd, "assets"))
            with open(os.path.join(pd, "assets", "app.js"), "w") as f:
                f.write(f"// {pn}")
            projects.append(pd)
        for pd in projects:
            os.chdir(pd)
            dep = HTMLDependency("app", "1.0", source={"subdir": "assets"}, script={"src": "app.js"})
            fname = "index.html" if what == "bare-filename" else os.path.join(pd, "out.html")
            try:
                ret = HTMLDocument(Tag("p", "x"), dep).save_html(fname, libdir=libdir, include_version=incv)
            except Exception as e:
                viols.append((f"cwd:{what}:raises", f"save_html({fname!r}) raised {type(e).__name__}: {e}", {}))
                break
            if ret != fname:
                viols.append((f"cwd:{what}:return", f"returned {ret!r}", {}))
            sub = os.path.join(pd, *( [libdir] if libdir else []), "app" + ("-1.0" if incv else ""), "app.js")
            if not os.path.isfile(sub) or open(sub).read() != f"// {os.path.basename(pd)}":
                viols.append((f"cwd:{what}:wrong-file", "the copied file is not this project's source file "
                              "(relative source directories are resolved against the current directory at the time of the call)",
                              {"expected": f"// {os.path.basename(pd)}", "observed": open(sub).read() if os.path.isfile(sub) else None}))
                break
            if not os.path.isfile(os.path.join(pd, os.path.basename(fname))):
                viols.append((f"cwd:{what}:no-html", "html file not written next to the dependencies", {}))
        return (True, what, viols, 2)
    finally:
        os.chdir(old)
        shutil.rmtree(tdir, ignore_errors=True)


def fn_missing_dir(case):
    """the whole source directory of a dependency with listed files is missing: copying must raise."""
    from htmltools import HTMLDependency, HTMLDocument, Tag
    caller, all_files = case
    viols = []
    tdir = tempfile.mkdtemp(prefix="c", dir=os.path.join(_FX["root"], "t"))
    try:
        dep = HTMLDependency("gone", "1.0", source={"subdir": os.path.join(tdir, "no-such-dir")},
                             script={"src": "a.js"}, all_files=all_files)
        before = listing(tdir)
        try:
            if caller == "copy_to":
                dep.copy_to(os.path.join(tdir, "lib"))
            else:
                HTMLDocument(Tag("p", "x"), dep).save_html(os.path.join(tdir, "index.html"))
            raised = False
        except Exception:
            raised = True
        if not all_files:
            if not raised:
                viols.append(("fault:missing-source-dir:no-error", "a listed file's whole source directory is missing but "
                              "copying did not raise", {}))
            if listing(tdir) != before:
                viols.append(("fault:missing-source-dir:touched", "destination changed although copying raised / was skipped", {}))
        return (True, raised, viols, 1)
    finally:
        shutil.rmtree(tdir, ignore_errors=True)


# ------------------------------------------------------------------ user subclasses, aliased paths
def saved_urls(file):
    text = open(file, encoding="utf-8").read()
    urls = []
    for t in tokenize(text):
        if t[0] in ("open", "void") and t[1] in ("script", "link"):
            for k, v in t[2]:
                if (t[1], k) in (("script", "src"), ("link", "href")):
                    urls.append(_html.unescape(v))
    return urls


_SUBCLS = {}


def vendored_cls(kind):
    """user subclasses of HTMLDependency overriding the public source_path_map()."""
    if kind in _SUBCLS:
        return _SUBCLS[kind]
    import posixpath
    from htmltools import HTMLDependency

    class VendoredDep(HTMLDependency):
        """puts its files under <prefix>/vendor-<name>[-v<version>]"""

        def source_path_map(self, *, lib_prefix="lib", include_version=True):
            m = super().source_path_map(lib_prefix=lib_prefix, include_version=include_version)
            if not m["source"]:
                return m
            href = "vendor-" + self.name + ("-v" + str(self.version) if include_version else "")
            if lib_prefix:
                href = posixpath.join(lib_prefix, href)
            return {"source": m["source"], "href": href}

    class FlatDep(HTMLDependency):
        """never puts the version in the directory name"""

        def source_path_map(self, *, lib_prefix="lib", include_version=True):
            return super().source_path_map(lib_prefix=lib_prefix, include_version=False)

    class PlainSub(HTMLDependency):
        """overrides nothing, carries an extra attribute"""

        def __init__(self, *a, **kw):
            super().__init__(*a, **kw)
            self.note = "extra"

    _SUBCLS.update({"vendored": VendoredDep, "flat": FlatDep, "plain-subclass": PlainSub})
    return _SUBCLS[kind]


def fn_subclass(case):
    """a user subclass of HTMLDependency (overriding source_path_map(), or nothing): the URLs in the
    written file must still name the files that were copied, byte-identical to their sources."""
    from htmltools import HTMLDocument, Tag, TagList
    kind, scripts, style, all_files, source_kind, libdir, incv, caller = case
    viols = []
    tdir = tempfile.mkdtemp(prefix="c", dir=os.path.join(_FX["root"], "t"))
    try:
        cls = vendored_cls(kind)
        if source_kind == "dir":
            source = {"subdir": src_dir_for("dir")}
        else:
            source = {"package": _FX["pkg"], "subdir": os.path.basename(src_dir_for("package"))}
        dep = cls("my.dep_1", "1.2.3", source=source, script=[{"src": x} for x in scripts],
                  stylesheet=[{"href": style}] if style else [], all_files=all_files)
        file = os.path.join(tdir, "index.html")
        destdir = os.path.join(tdir, libdir) if libdir else tdir
        try:
            if caller == "document":
                HTMLDocument(Tag("p", PAGE_TEXT), dep).save_html(file, libdir=libdir, include_version=incv)
            elif caller == "tag":
                Tag("div", "x", dep).save_html(file, libdir=libdir, include_version=incv)
            elif caller == "list":
                TagList("x", Tag("span", dep)).save_html(file, libdir=libdir, include_version=incv)
            else:
                dep.copy_to(destdir, include_version=incv)
        except Exception as e:
            viols.append(("subclass:unexpected-error", f"{kind}: save_html/copy_to raised {e!r}", {}))
            return (True, "raised", viols, 1)
        m = dep.source_path_map(lib_prefix=libdir, include_version=incv)
        src_root = m["source"]
        listed = ([style] if style else []) + list(scripts)
        if caller == "copy_to":
            d = dep.as_dict(lib_prefix=libdir, include_version=incv)
            urls = [x["href"] for x in d["stylesheet"]] + [x["src"] for x in d["script"]]
        else:
            try:
                urls = saved_urls(file)
            except TokenError as e:
                viols.append(("html-untokenizable", str(e), {}))
                return (True, None, viols, 1)
        if len(urls) != len(listed):
            viols.append(("subclass:url-count", f"{kind}: {len(urls)} URLs for {len(listed)} listed files", {"observed": urls}))
        for u, rel in zip(urls, listed):
            want = join_url(m["href"], pct_encode(rel))
            if u != want:
                viols.append(("subclass:url-form", f"{kind}: URL is not <the dependency's own source_path_map() href>/"
                              "percent-encoded path", {"observed": u, "expected": want}))
            pth = os.path.normpath(os.path.join(tdir, urllib.parse.unquote(u)))
            if not os.path.isfile(pth):
                viols.append(("subclass:url-dangling", f"{kind}: URL {u!r} does not name a copied file",
                              {"copied": [x if isinstance(x, str) else x[0] for x in listing(tdir)][:12]}))
            elif open(pth, "rb").read() != open(os.path.join(src_root, rel), "rb").read():
                viols.append(("subclass:copied-file-differs", f"{kind}: {u!r} is not byte-identical to its source", {}))
        if all_files:
            target = os.path.normpath(os.path.join(tdir, m["href"]))
            if listing(target) != listing(src_root):
                viols.append(("subclass:all_files:tree-differs", f"{kind}: target is not a copy of the whole source directory", {}))
        return (True, (kind, caller), viols, 1)
    finally:
        shutil.rmtree(tdir, ignore_errors=True)


_PKGN = [0]


def fn_alias(case):
    """the directory the files are to be copied to IS the source directory, but reached through
    another spelling (a symbolic link in the output path, a symbolic link in the source path, a
    package source with '..' in its sub-directory, a sys.path entry that is a symbolic link):
    nothing may be destroyed, and if saving succeeds the URLs must name existing files."""
    import importlib
    from htmltools import HTMLDependency, HTMLDocument, Tag
    variant, files, all_files, caller = case
    viols = []
    tdir = os.path.realpath(tempfile.mkdtemp(prefix="c", dir=os.path.join(_FX["root"], "t")))
    added_path = None
    pkgname = None
    try:
        libdir = None
        if variant == "symlinked-libdir":
            real = os.path.join(tdir, "assets", "widget")
            populate(real)
            os.makedirs(os.path.join(tdir, "site"))
            os.symlink(os.path.join("..", "assets"), os.path.join(tdir, "site", "lib"))
            outdir, libdir, source = os.path.join(tdir, "site"), "lib", {"subdir": real}
        elif variant == "symlinked-output-dir":
            real = os.path.join(tdir, "site", "widget")
            populate(real)
            os.symlink("site", os.path.join(tdir, "link"))
            outdir, source = os.path.join(tdir, "link"), {"subdir": real}
        elif variant == "symlinked-source":
            real = os.path.join(tdir, "site", "widget")
            populate(real)
            os.symlink("site", os.path.join(tdir, "link"))
            outdir, source = os.path.join(tdir, "site"), {"subdir": os.path.join(tdir, "link", "widget")}
        elif variant in ("package-dotdot", "package-via-symlinked-syspath"):
            _PKGN[0] += 1
            pkgname = f"hvalias{os.getpid()}x{_PKGN[0]}"
            base = os.path.join(tdir, "pk")
            os.makedirs(os.path.join(base, pkgname, "app"))
            open(os.path.join(base, pkgname, "__init__.py"), "w").close()
            open(os.path.join(base, pkgname, "app", "__init__.py"), "w").close()
            real = os.path.join(base, pkgname, "static", "widget")
            populate(real)
            outdir = os.path.join(base, pkgname, "static")
            if variant == "package-dotdot":
                added_path = base
                source = {"package": pkgname + ".app", "subdir": "../static/widget"}
            else:
                os.symlink("pk", os.path.join(tdir, "pklink"))
                added_path = os.path.join(tdir, "pklink")
                source = {"package": pkgname, "subdir": "static/widget"}
            sys.path.insert(0, added_path)
            importlib.invalidate_caches()
        else:
            raise ValueError(variant)
        before = listing(real)
        dep = HTMLDependency("widget", "1.0", source=source, script=[{"src": f} for f in files], all_files=all_files)
        file = os.path.join(outdir, "index.html")
        try:
            if caller == "copy_to":
                dep.copy_to(os.path.join(outdir, libdir) if libdir else outdir, include_version=False)
            else:
                HTMLDocument(Tag("p", "x"), dep).save_html(file, libdir=libdir, include_version=False)
        except Exception as e:
            if listing(real) != before:
                viols.append((f"alias:{variant}:raised-and-destroyed", f"{type(e).__name__} raised and the source directory changed", {}))
            return (True, "raised", viols, 1)
        after = listing(real)
        lost = [x if isinstance(x, str) else x[0] for x in before if x not in after]
        if lost:
            viols.append((f"alias:{variant}:source-destroyed", "the target directory is the source directory under another "
                          "spelling; saving deleted or changed source files", {"lost": lost[:10]}))
        elif caller != "copy_to":
            for u in saved_urls(file):
                pth = os.path.normpath(os.path.join(outdir, urllib.parse.unquote(u)))
                if not os.path.isfile(pth):
                    viols.append((f"alias:{variant}:url-dangling", f"URL {u!r} names no file after save_html", {}))
                    break
        return (True, (variant, "saved"), viols, 1)
    finally:
        if added_path and added_path in sys.path:
            sys.path.remove(added_path)
        if pkgname:
            for k in [k for k in sys.modules if k == pkgname or k.startswith(pkgname + ".")]:
                del sys.modules[k]
        shutil.rmtree(tdir, ignore_errors=True)


def fn_lookalike(case):
    """the source directory is a SIBLING of the target directory whose name merely starts with the target's
    name (widget-src beside widget; lib/widget-1.0-dist beside lib/widget-1.0): an ordinary copy."""
    from htmltools import HTMLDependency, HTMLDocument, Tag
    variant, files, all_files, caller = case
    viols = []
    tdir = os.path.realpath(tempfile.mkdtemp(prefix="c", dir=os.path.join(_FX["root"], "t")))
    try:
        if variant == "name-src":
            src, libdir, incv, target = os.path.join(tdir, "widget-src"), None, False, os.path.join(tdir, "widget")
        elif variant == "version-dist":
            src, libdir, incv, target = os.path.join(tdir, "lib", "widget-1.0-dist"), "lib", True, os.path.join(tdir, "lib", "widget-1.0")
        elif variant == "longer-name":
            src, libdir, incv, target = os.path.join(tdir, "lib", "widget2"), "lib", False, os.path.join(tdir, "lib", "widget")
        else:   # the target's name starts with the source's name
            src, libdir, incv, target = os.path.join(tdir, "lib", "widget"), "lib", True, os.path.join(tdir, "lib", "widget-1.0")
        populate(src)
        before = listing(src)
        dep = HTMLDependency("widget", "1.0", source={"subdir": src}, script=[{"src": f} for f in files], all_files=all_files)
        file = os.path.join(tdir, "index.html")
        try:
            if caller == "copy_to":
                dep.copy_to(os.path.join(tdir, libdir) if libdir else tdir, include_version=incv)
            else:
                HTMLDocument(Tag("p", "x"), dep).save_html(file, libdir=libdir, include_version=incv)
        except Exception as e:
            viols.append((f"lookalike:{variant}:raises", f"copying from a sibling directory raised {type(e).__name__}: {e}", {}))
            return (True, "raised", viols, 1)
        if listing(src) != before:
            viols.append((f"lookalike:{variant}:source-changed", "the source directory changed", {}))
        for f in files:
            pth = os.path.join(target, f)
            if not os.path.isfile(pth) or open(pth, "rb").read() != open(os.path.join(src, f), "rb").read():
                viols.append((f"lookalike:{variant}:not-copied", f"{f!r} was not copied byte-identically to {os.path.relpath(target, tdir)}", {}))
                break
        if all_files and listing(target) != before:
            viols.append((f"lookalike:{variant}:all_files", "target is not a copy of the whole source directory", {}))
        return (True, variant, viols, 1)
    finally:
        shutil.rmtree(tdir, ignore_errors=True)


def fn_linked_sources(case):
    """some of the dependency's source files are symbolic links (relative, pointing outside the directory that is
    copied), and the output path reaches its directory through a symbolic link followed by '..': every URL in the
    written file still names a readable file with the source's bytes, next to the file actually written."""
    from htmltools import HTMLDependency, HTMLDocument, Tag
    srcshape, outshape, all_files, caller = case
    viols = []
    tdir = os.path.realpath(tempfile.mkdtemp(prefix="c", dir=os.path.join(_FX["root"], "t")))
    try:
        src = os.path.join(tdir, "pkg", "dist")
        os.makedirs(os.path.join(src, "sub"))
        os.makedirs(os.path.join(tdir, "pkg", "build"))
        content = {"app.js": b"// app", "sub/in.js": b"// in", "plain.css": b"p{}"}
        if srcshape == "plain":
            for rel, data in content.items():
                with open(os.path.join(src, rel), "wb") as f:
                    f.write(data)
        else:
            # the real files live in ../build; dist/ holds relative links to them
            for rel, data in content.items():
                real = os.path.join(tdir, "pkg", "build", rel.replace("/", "_"))
                with open(real, "wb") as f:
                    f.write(data)
                up = "../" * (rel.count("/") + 1)
                os.symlink(up + "build/" + rel.replace("/", "_"), os.path.join(src, rel))
            if srcshape == "linked-files-and-dir":
                os.makedirs(os.path.join(tdir, "pkg", "build", "assets"))
                with open(os.path.join(tdir, "pkg", "build", "assets", "img.bin"), "wb") as f:
                    f.write(b"IMG")
                os.symlink("../build/assets", os.path.join(src, "assets"))
        dep = HTMLDependency("w", "1.0", source={"subdir": src}, script=[{"src": "app.js"}, {"src": "sub/in.js"}],
                             stylesheet={"href": "plain.css"}, all_files=all_files)
        # where the page goes
        real_out = os.path.join(tdir, "releases", "v7")
        os.makedirs(os.path.join(real_out, "public"))
        os.makedirs(os.path.join(tdir, "work"))
        if outshape == "direct":
            file, real_dir = os.path.join(real_out, "index.html"), real_out
        elif outshape == "via-symlinked-dir":
            os.symlink(real_out, os.path.join(tdir, "work", "current"))
            file, real_dir = os.path.join(tdir, "work", "current", "index.html"), real_out
        else:   # <symlink>/../index.html : the OS follows the link first, then goes up
            os.symlink(os.path.join(real_out, "public"), os.path.join(tdir, "work", "current"))
            file, real_dir = os.path.join(tdir, "work", "current", "..", "index.html"), real_out
        try:
            if caller == "tag":
                ret = Tag("div", "x", dep).save_html(file)
            else:
                ret = HTMLDocument(Tag("p", "x"), dep).save_html(file)
        except Exception as e:
            viols.append((f"linked:{srcshape}:{outshape}:raises", f"save_html raised {type(e).__name__}: {e}", {}))
            return (True, "raised", viols, 1)
        written = os.path.join(real_dir, "index.html")
        if not os.path.isfile(written):
            viols.append((f"linked:{outshape}:html-not-written", "the html file is not where the operating system resolves the given path", {}))
            return (True, None, viols, 1)
        urls = saved_urls(written)
        want = {"lib/w-1.0/plain.css": content["plain.css"], "lib/w-1.0/app.js": content["app.js"], "lib/w-1.0/sub/in.js": content["sub/in.js"]}
        if sorted(urls) != sorted(want):
            viols.append((f"linked:{srcshape}:{outshape}:urls", "unexpected URLs", {"observed": urls}))
        for u, data in want.items():
            pth = os.path.join(real_dir, u)
            try:
                got = open(pth, "rb").read()
            except OSError as e:
                viols.append((f"linked:{srcshape}:{outshape}:url-dangling", f"URL {u!r}, resolved against the directory of the written "
                              f"file, names no readable file ({type(e).__name__}); a copied symbolic link may dangle", {}))
                break
            if got != data:
                viols.append((f"linked:{srcshape}:{outshape}:bytes", f"{u!r} is not byte-identical to its source", {}))
        if all_files and srcshape == "linked-files-and-dir":
            try:
                if open(os.path.join(real_dir, "lib/w-1.0/assets/img.bin"), "rb").read() != b"IMG":
                    raise OSError("bytes differ")
            except OSError as e:
                viols.append((f"linked:{srcshape}:{outshape}:all_files", f"assets/img.bin of the source directory has no readable copy ({e})", {}))
        return (True, (srcshape, outshape), viols, 1)
    finally:
        shutil.rmtree(tdir, ignore_errors=True)


def fn_defaults(case):
    """every optional argument left out: the documented defaults are lib prefix / libdir 'lib' and include_version=True,
    in every method that takes them, and what they return carries the documented keys."""
    from htmltools import HTMLDependency, HTMLDocument, HTMLTextDocument, Tag, TagList
    api, source_kind = case
    viols = []
    tdir = tempfile.mkdtemp(prefix="c", dir=os.path.join(_FX["root"], "t"))
    try:
        dep = make_dep([FILES[1]], STYLE, False, source_kind)
        name, ver = IDENT["safe"]
        local = source_kind in ("dir", "package")
        want_base = ("lib/" + name + "-" + ver) if local else dep_href({"name": "x", "version": "1", "source": dep.source}, "lib", True)
        want_src = join_url(want_base, pct_encode(FILES[1]))
        want_href = join_url(want_base, pct_encode(STYLE))

        def bad(what, got):
            viols.append((f"defaults:{api}", f"{api} with its optional arguments left out: {what}", {"observed": got}))
        if api == "source_path_map":
            m = dep.source_path_map()
            if m != dep.source_path_map(lib_prefix="lib", include_version=True) or (local and m["href"] != want_base):
                bad("not lib prefix 'lib' with the version", m)
        elif api == "as_dict":
            d = dep.as_dict()
            if d != dep.as_dict(lib_prefix="lib", include_version=True):
                bad("differs from lib_prefix='lib', include_version=True", repr(d)[:300])
            if d.get("name") != name or str(d.get("version")) != ver or [x.get("src") for x in d.get("script", [])] != [want_src] \
                    or [x.get("href") for x in d.get("stylesheet", [])] != [want_href] or "meta" not in d or "head" not in d:
                bad("name / version / script / stylesheet / meta / head entries are not the dependency's", repr(d)[:300])
        elif api == "as_html_tags":
            a = dep.as_html_tags().get_html_string()
            if a != dep.as_html_tags(lib_prefix="lib", include_version=True).get_html_string() or ('src="' + _html.escape(want_src)) not in a:
                bad("not the lib/name-version URLs", a)
        elif api in ("HTMLDocument.render", "HTMLTextDocument.render"):
            if api == "HTMLDocument.render":
                doc = HTMLDocument(Tag("p", "x"), dep)
            else:
                doc = HTMLTextDocument("<html><head>HERE</head><body></body></html>", deps=[dep], deps_replace_pattern="HERE")
            a = doc.render()["html"]
            if a != doc.render(lib_prefix="lib", include_version=True)["html"] or ('src="' + _html.escape(want_src)) not in a:
                bad("not the lib/name-version URLs", a)
        elif api == "copy_to":
            dep.copy_to(os.path.join(tdir, "out"))
            if local and not os.path.isfile(os.path.join(tdir, "out", name + "-" + ver, FILES[1])):
                bad("files are not under <path>/name-version", [x if isinstance(x, str) else x[0] for x in listing(tdir)])
        else:
            file = os.path.join(tdir, "index.html")
            if api == "HTMLDocument.save_html":
                ret = HTMLDocument(Tag("p", "x"), dep).save_html(file)
            elif api == "Tag.save_html":
                ret = Tag("div", "x", dep).save_html(file)
            else:
                ret = TagList("x", Tag("span", dep)).save_html(file)
            urls = saved_urls(file)
            if ret != file or urls != [want_href, want_src]:
                bad("URLs are not lib/name-version/...", urls)
            if local and not os.path.isfile(os.path.join(tdir, "lib", name + "-" + ver, FILES[1])):
                bad("files are not under lib/name-version next to the html file", [x if isinstance(x, str) else x[0] for x in listing(tdir)])
        return (True, api, viols, 1)
    finally:
        shutil.rmtree(tdir, ignore_errors=True)


def fn_pkglayout(case):
    """package sources in unusual layouts: the package's __init__.py is a symbolic link to a file kept
    elsewhere (a 'link farm'); the dependency's files are the ones in the package directory."""
    import importlib
    from htmltools import HTMLDependency, HTMLDocument, Tag
    layout, elsewhere, all_files, caller = case
    viols = []
    tdir = os.path.realpath(tempfile.mkdtemp(prefix="c", dir=os.path.join(_FX["root"], "t")))
    _PKGN[0] += 1
    pkgname = f"hvfarm{os.getpid()}x{_PKGN[0]}"
    base = os.path.join(tdir, "site-packages")
    try:
        pdir = os.path.join(base, pkgname)
        os.makedirs(os.path.join(pdir, "www"))
        with open(os.path.join(pdir, "www", "w.js"), "w") as f:
            f.write("// the package's own file")
        with open(os.path.join(pdir, "www", "other.txt"), "w") as f:
            f.write("other")
        store = os.path.join(tdir, "store", "abc123")
        os.makedirs(store)
        if layout == "init-is-symlink":
            with open(os.path.join(store, "__init__.py"), "w") as f:
                f.write("")
            os.symlink(os.path.join(store, "__init__.py"), os.path.join(pdir, "__init__.py"))
        else:
            open(os.path.join(pdir, "__init__.py"), "w").close()
        if elsewhere == "stale-copy":
            os.makedirs(os.path.join(store, "www"))
            with open(os.path.join(store, "www", "w.js"), "w") as f:
                f.write("// STALE file next to the link target")
        sys.path.insert(0, base)
        importlib.invalidate_caches()
        dep = HTMLDependency("farm", "2.0", source={"package": pkgname, "subdir": "www"}, script={"src": "w.js"},
                             all_files=all_files)
        out = os.path.join(tdir, "out")
        os.makedirs(out)
        file = os.path.join(out, "index.html")
        try:
            if caller == "copy_to":
                dep.copy_to(os.path.join(out, "lib"))
            else:
                HTMLDocument(Tag("p", "x"), dep).save_html(file)
        except Exception as e:
            viols.append((f"pkglayout:{layout}:raises", f"copying a file that exists in the package directory raised "
                          f"{type(e).__name__}: {e}", {}))
            return (True, "raised", viols, 1)
        got = os.path.join(out, "lib", "farm-2.0", "w.js")
        if not os.path.isfile(got):
            viols.append((f"pkglayout:{layout}:not-copied", "lib/farm-2.0/w.js missing", {}))
        elif open(got).read() != "// the package's own file":
            viols.append((f"pkglayout:{layout}:wrong-bytes", "the copied file is not the file in the package directory",
                          {"observed": open(got).read()}))
        if all_files and not os.path.isfile(os.path.join(out, "lib", "farm-2.0", "other.txt")):
            viols.append((f"pkglayout:{layout}:all_files", "whole source directory not copied", {}))
        return (True, (layout, elsewhere), viols, 1)
    finally:
        if base in sys.path:
            sys.path.remove(base)
        for k in [k for k in sys.modules if k == pkgname or k.startswith(pkgname + ".")]:
            del sys.modules[k]
        shutil.rmtree(tdir, ignore_errors=True)


def plan(tier):
    singles = [[f] for f in FILES]
    pairs = [[FILES[i], FILES[i + 1]] for i in range(len(FILES) - 1)] + [[FILES[-1], FILES[0]]]
    scripts = Const(singles + pairs + [[]])
    styles = Const([None, STYLE])
    full = Prod(scripts, styles, Const([False, True]), Const(["dir", "package", "url/", "url", "none"]),
                Const(["lib", None, "x/y"]), Const([True, False]), Const(["absent", "file", "dir"]),
                Const(["document", "tag", "list", "copy_to"]), Const([[]]))
    if tier == "quick":
        # quick: every file name x every configuration switch pairwise with 'document' caller;
        # the other callers on the single-script cases
        a = Prod(scripts, styles, Const([False, True]), Const(["dir", "package", "url/", "url", "none"]),
                 Const(["lib", None, "x/y"]), Const([True, False]), Const(["absent", "file", "dir"]),
                 Const(["document"]), Const([[]]))
        b = Prod(Const(singles), Const([STYLE]), Const([False, True]), Const(["dir", "package", "url"]),
                 Const(["lib", None]), Const([True, False]), Const(["absent", "dir"]),
                 Const(["tag", "list", "copy_to"]), Const([[]]))
        main = Alt(a, b)
    else:
        main = full
    # faults: every listed file missing, one at a time
    fault_cases = []
    for sc in singles + pairs:
        for st in (None, STYLE):
            listed = sc + ([st] if st else [])
            miss_sets = [[m] for m in listed]
            if tier != "quick" and len(listed) >= 2:
                miss_sets += [[listed[i], listed[j]] for i in range(len(listed)) for j in range(i + 1, len(listed))]
            for ms in miss_sets:
                for kind in ("dir", "package"):
                    for stale in ("absent", "file", "dir"):
                        for caller in (("document", "copy_to") if tier == "quick" else ("document", "tag", "list", "copy_to")):
                            for af in (False,):
                                fault_cases.append((sc, st, af, kind, "lib", True, stale, caller, ms))
    spaced = Prod(Const([[FILES[0]], [FILES[1], FILES[2]], []]), Const([None, STYLE]), Const([False, True]),
                  Const(["dir", "package", "url"]), Const(["lib", None, "x/y"]), Const([True, False]),
                  Const(["absent", "dir"]), Const(["document", "copy_to"]), Const([[]]), Const(["spaced"]))
    samedict = Prod(Const([[FILES[0]], [FILES[1]], [FILES[-1]]]), Const([None, STYLE]), Const([False, True]),
                    Const(["dir", "url", "none"]), Const(["lib", None]), Const([True, False]), Const(["absent"]),
                    Const(["document", "copy_to"]), Const([[]]), Const(["same-dict-twice"]))
    inplace = Prod(Const([[FILES[0]], [FILES[0], FILES[-1]], []]), Const([False, True]), Const(["document", "copy_to"]),
                   Const(["source-is-target", "source-inside-target"]))
    abslib = Prod(Const([[FILES[0]], [FILES[1], FILES[2]], []]), Const([None, STYLE]), Const([False, True]),
                  Const(["dir", "package", "url"]), Const(["ABS"]), Const([True, False]), Const(["absent", "dir"]),
                  Const(["document", "tag", "list", "copy_to"]), Const([[]]))
    subcls = Prod(Const(["vendored", "flat", "plain-subclass"]), Const([[FILES[0]], [FILES[1], FILES[-1]]]),
                  Const([None, STYLE]), Const([False, True]), Const(["dir", "package"]), Const(["lib", None, "x/y"]),
                  Const([True, False]), Const(["document", "tag", "list", "copy_to"]))
    alias = Prod(Const(["symlinked-libdir", "symlinked-output-dir", "symlinked-source", "package-dotdot",
                        "package-via-symlinked-syspath"]),
                 Const([[FILES[0]], [FILES[0], FILES[-1]], []]), Const([False, True]), Const(["document", "copy_to"]))
    pkglay = Prod(Const(["init-is-symlink", "regular"]), Const(["stale-copy", "nothing"]), Const([False, True]),
                  Const(["document", "copy_to"]))
    return [
        dict(kind="space", name="user-subclass-of-HTMLDependency", space=subcls, fn=fn_subclass,
             note="subclasses overriding source_path_map() (other directory name; never a version) or nothing: the URLs "
                  "written must be the subclass's own href + percent-encoded path and name the copied files"),
        dict(kind="space", name="target-is-the-source-under-another-spelling", space=alias, fn=fn_alias, serial=True,
             note="symlinked libdir / output dir / source path, package source with '..', symlinked sys.path entry"),
        dict(kind="space", name="source-is-a-lookalike-sibling-of-the-target", fn=fn_lookalike,
             space=Prod(Const(["name-src", "version-dist", "longer-name", "shorter-name"]),
                        Const([[FILES[0]], [FILES[0], FILES[-1]]]), Const([False, True]), Const(["document", "copy_to"])),
             note="the source directory's path has the target directory's path as a string prefix (or the reverse) without being "
                  "inside it: copied like any other"),
        dict(kind="space", name="symbolic-links-in-the-source-and-in-the-output-path", fn=fn_linked_sources, serial=True,
             space=Prod(Const(["plain", "linked-files", "linked-files-and-dir"]), Const(["direct", "via-symlinked-dir", "symlink-then-dotdot"]),
                        Const([False, True]), Const(["document", "tag"])),
             note="source files that are relative symbolic links to files outside the copied directory (also a linked sub-directory "
                  "under all_files) x output path given directly / through a symlinked directory / as <symlink>/../index.html"),
        dict(kind="space", name="optional-arguments-left-out", fn=fn_defaults,
             space=Prod(Const(["source_path_map", "as_dict", "as_html_tags", "HTMLDocument.render", "HTMLTextDocument.render", "copy_to",
                               "HTMLDocument.save_html", "Tag.save_html", "TagList.save_html"]), Const(["dir", "package", "url", "none"])),
             note="9 entry points x 4 source kinds, called without lib_prefix / libdir / include_version: 'lib' and the version"),
        dict(kind="space", name="package-layouts", space=pkglay, fn=fn_pkglayout, serial=True,
             note="package whose __init__.py is a symbolic link to a file kept elsewhere (with / without a stale "
                  "same-named file next to the link target)"),
        dict(kind="space", name="source-subdir-with-trailing-slash", fn=fn,
             space=Prod(Const([[FILES[0]], [FILES[13], FILES[1]], []]), Const([None, STYLE]), Const([False, True]),
                        Const(["dir/", "package/"]), Const(["lib", None]), Const([True, False]), Const(["absent", "dir"]),
                        Const(["document", "copy_to"]), Const([[]])),
             note="the source sub-directory is spelled with a trailing slash (package and directory sources; nested files; all_files)"),
        dict(kind="space", name="absolute-libdir", space=abslib, fn=fn,
             note="libdir is an absolute path: URLs keep the leading slash and name the copied files"),
        dict(kind="space", name="relative-paths-and-cwd", fn=fn_cwd, serial=True,
             space=Prod(Const(["bare-filename", "absolute-filename"]), Const(["lib", None]), Const([True, False])),
             note="bare output file name; relative source sub-directory used from two working directories in one process"),
        dict(kind="space", name="missing-source-directory", fn=fn_missing_dir,
             space=Prod(Const(["copy_to", "document"]), Const([False, True])),
             note="fault: the whole source directory is missing"),
        dict(kind="space", name="same-item-object-listed-twice", space=samedict, fn=fn,
             note="script=[d, d] with ONE dict object: both URLs are prefix/name-version/path, the file is copied"),
        dict(kind="space", name="source-directory-is-the-target", space=inplace, fn=fn_inplace,
             note="source = <dir of the html file>/<name>, libdir=None, include_version=False: nothing may be destroyed"),
        dict(kind="space", name="name-and-version-with-reserved-characters", space=spaced, fn=fn,
             note="dependency named 'my widget,x' version '1.0+b.5' (space, comma, plus): the directory part of the URL "
                  "is written literally and must name the directory the files were copied to"),
        dict(kind="space", name="configuration-product", space=main, fn=fn,
             note=f"{main.size} configurations, 0 faults"),
        dict(kind="space", name="single-fault-missing-file", space=Const(fault_cases), fn=fn,
             note=f"{len(fault_cases)} single (thorough: also double) missing-file faults x source kind x stale state x caller"),
    ]
