"""C10 - dependencies are validated, then resolve one per name to the highest version.

E1 over all sequences of dependency kinds x placements; oracle R8 (own dotted-integer
version order; earliest on ties; first-occurrence order), compared by object identity for
get_dependencies() and by a unique marker for render().  Constructor validation matrix.
"""
from __future__ import annotations

import copy

from ..ref.deps import resolve
from ..space import Const, Prod, Seq

ID = "C10"
LEVEL = "model_checking"
RULE = ("every sequence of length <= 4 (quick) / <= 5 (thorough) over 16 dependency kinds (names {a,b} "
        "x versions {1.9, 1.10, 1.10.0, 2} x two contents) x 4 placements of the same document "
        "order (flat list, each wrapped in nested tags, mixed depths, inside inline parents); "
        "constructor validation: {script, stylesheet, meta} x {single dict, list of one, list of two} "
        "and every malformed definition of the statement. Non-trivial = sequence with a repeated "
        "name. Distinct by construction.")
ASSUMPTIONS = [
    "R8 version order: dotted integers compared numerically component-wise, trailing zero "
    "components insignificant (1.10 == 1.10.0); not packaging.version",
]

NAMES = ["a", "b"]
VERSIONS = ["1.9", "1.10", "1.10.0", "2"]
CONTENTS = ["s1.js", "s2.js"]
KINDS = [(n, v, c) for n in NAMES for v in VERSIONS for c in CONTENTS]
PLACEMENTS = ["flat", "nested", "mixed", "inline", "void", "shared-tags", "expansion"]


def place(deps, placement):
    from htmltools import Tag, TagList
    div = lambda *a: Tag("div", *a)                    # noqa: E731
    span = lambda *a: Tag("span", *a, _add_ws=False)   # noqa: E731
    if placement == "flat":
        return TagList(*deps)
    if placement == "nested":
        return TagList(*[div(div("t", d)) for d in deps])
    if placement == "inline":
        return div(*[span(d, "x") for d in deps])
    if placement == "void":
        return div(*[Tag("input" if i % 2 else "br", d, _add_ws=False) for i, d in enumerate(deps)])
    if placement == "shared-tags":
        # every holder tag object occurs twice in the tree (same object, two positions): first all
        # holders in order, then all of them again inside a nested div
        holders = [span(d) for d in deps]
        return div(*holders, div("again", *holders))
    if placement == "expansion":
        from ..spec import Tagif
        # dependencies only exist in the expansions of tagifiable objects
        class Holder:
            def __init__(self, d):
                self.d = d

            def tagify(self):
                return Tag("div", "h", self.d)
        return div(*[Holder(d) for d in deps])
    # mixed depths, same document order
    items = []
    for i, d in enumerate(deps):
        if i % 3 == 0:
            items.append(d)
        elif i % 3 == 1:
            items.append(div("p", div(d)))
        else:
            items.append(span(span(span(d))))
    return div("lead", *items)


def fn_seq(case):
    from htmltools import HTMLDependency, TagList
    kinds, placement = case
    deps = []
    for i, (n, v, c) in enumerate(kinds):
        deps.append(HTMLDependency(n, v, script={"src": c}, head=f"<!--m{i}-->"))
    tree = place(deps, placement)
    exp = [p for (_, _, p) in resolve([(n, v, i) for i, (n, v, c) in enumerate(kinds)])]
    viols = []
    if placement == "expansion":
        # only render() can see them; compared by marker
        r = tree.render()["dependencies"]
        ri = [int(str(d.head[0])[5:-3]) if d.head else None for d in r]
        if ri != exp:
            viols.append(("resolve:render-expansions", "render()['dependencies'] of dependencies carried by "
                          "expansions is not the resolved list", {"observed_indexes": ri, "expected_indexes": exp}))
        return (len(set(k[0] for k in kinds)) < len(kinds), tuple(exp), viols, 1)
    if placement == "shared-tags":
        raw = tree.get_dependencies(dedup=False)
        if [id(d) for d in raw] != [id(d) for d in deps] * 2:
            viols.append(("collect:shared-tag-objects", "get_dependencies(dedup=False) dropped dependencies of a tag "
                          "object that occurs twice in the tree", {"observed": len(raw), "expected": 2 * len(deps)}))
        got = tree.get_dependencies()
        gi = [next((i for i, d in enumerate(deps) if d is g), None) for g in got]
        if gi != exp:
            viols.append(("resolve:shared-tag-objects", "resolution differs when holder tags are shared",
                          {"observed_indexes": gi, "expected_indexes": exp}))
        return (True, tuple(exp), viols, 2)
    got = tree.get_dependencies()
    gi = [next((i for i, d in enumerate(deps) if d is g), None) for g in got]
    if gi != exp:
        viols.append(("resolve:get_dependencies", "get_dependencies() is not one-per-name / highest "
                      "version / earliest on ties / first-occurrence order (by object identity)",
                      {"observed_indexes": gi, "expected_indexes": exp}))
    raw = tree.get_dependencies(dedup=False)
    if [id(d) for d in raw] != [id(d) for d in deps]:
        viols.append(("collect:dedup=False", "get_dependencies(dedup=False) dropped or reordered dependencies",
                      {"observed": [repr(d) for d in raw]}))
    r = tree.render()["dependencies"]
    ri = [int(str(d.head[0])[5:-3]) if d.head else None for d in r]
    if ri != exp:
        viols.append(("resolve:render", "render()['dependencies'] is not the resolved list",
                      {"observed_indexes": ri, "expected_indexes": exp}))
    # idempotence: resolving the resolved list changes nothing (same objects)
    again = TagList(*got).get_dependencies()
    if [id(d) for d in again] != [id(d) for d in got]:
        viols.append(("resolve:idempotent", "resolving an already resolved list changed it", {}))
    names = [k[0] for k in kinds]
    return (len(set(names)) < len(names), tuple(exp), viols, 4)


def fn_equal_dups(case):
    """dependencies that are EQUAL (same definition, distinct objects) or the very same object several times:
    with dedup disabled nothing is dropped or reordered; with it, one object per name (the earliest)."""
    from htmltools import HTMLDependency
    idxs, placement = case
    pool = [HTMLDependency("a", "1.0", script={"src": "s.js"}), HTMLDependency("a", "1.0", script={"src": "s.js"}),
            HTMLDependency("b", "2.0", script={"src": "s.js"}), HTMLDependency("b", "2.0", script={"src": "s.js"})]
    deps = [pool[i] for i in idxs]
    tree = place(deps, placement)
    viols = []
    raw = tree.get_dependencies(dedup=False)
    if [id(d) for d in raw] != [id(d) for d in deps]:
        viols.append(("collect:dedup=False:equal-duplicates", "get_dependencies(dedup=False) dropped or reordered equal / "
                      "repeated dependencies", {"observed": len(raw), "expected": len(deps), "case": idxs}))
    got = tree.get_dependencies()
    exp = []
    for d in deps:
        if not any(e.name == d.name for e in exp):
            exp.append(d)
    if [id(d) for d in got] != [id(d) for d in exp]:
        viols.append(("resolve:equal-duplicates", "resolution of equal dependencies is not the earliest object per name",
                      {"case": idxs}))
    return (len(idxs) >= 2, None, viols, 2)


def fn_many(case):
    """many dependencies under one sibling list (sizes around 64 / 128 / 256, names repeating): nothing is dropped or
    reordered with dedup disabled, and resolution is still one per name, highest version, earliest on ties."""
    from htmltools import HTMLDependency
    n, nnames, placement = case
    deps = [HTMLDependency(f"n{i % nnames}", f"1.{(i * 7) % 5}", script={"src": f"s{i}.js"}) for i in range(n)]
    tree = place(deps, placement)
    viols = []
    raw = tree.get_dependencies(dedup=False)
    if [id(d) for d in raw] != [id(d) for d in deps]:
        viols.append(("collect:dedup=False:many", f"get_dependencies(dedup=False) returned {len(raw)} of {n} dependencies "
                      "(or reordered them)", {"n": n}))
    exp = [p for (_, _, p) in resolve([(d.name, str(d.version), i) for i, d in enumerate(deps)])]
    got = tree.get_dependencies()
    gi = [next((i for i, d in enumerate(deps) if d is g), None) for g in got]
    if gi != exp:
        viols.append(("resolve:many", "resolution of a large dependency list differs from the rule", {"n": n}))
    return (True, None, viols, 2)


# -------------------------------------------------------- version ordering
VERS2 = ["0.9", "1", "1.0", "1.2.3.4", "1.2.3.10", "1.2.3", "1.2.10", "1.10", "1.9.9.9.9", "2.0.0.0.1", "2",
         "10.0", "9.99", "1.2.3.4.5", "1.2.3.4.10", "01.2.3.4"]


def fn_versions(vers):
    from htmltools import HTMLDependency, Tag, TagList
    deps = [HTMLDependency("v", v, head=f"<!--m{i}-->") for i, v in enumerate(vers)]
    exp = [p for (_, _, p) in resolve([("v", v, i) for i, v in enumerate(vers)])]
    viols = []
    for how in ("flat", "nested"):
        tree = TagList(*deps) if how == "flat" else Tag("div", *[Tag("span", d) for d in deps])
        got = tree.get_dependencies()
        gi = [next(i for i, d in enumerate(deps) if d is g) for g in got]
        if gi != exp:
            viols.append(("resolve:version-order", f"versions {vers}: kept index {gi}, expected {exp} "
                          "(highest version numerically, earliest on ties)", {"versions": vers}))
            break
    return (len(vers) >= 2, tuple(exp), viols, 2)


NAMES2 = ["lib", "Lib", "LIB", "stra\u00dfe", "strasse", "k", "\u212a", "lib "]


def fn_names(names):
    from htmltools import HTMLDependency, Tag, TagList
    deps = [HTMLDependency(n, "1.0", head=f"<!--m{i}-->") for i, n in enumerate(names)]
    exp = [p for (_, _, p) in resolve([(n, "1.0", i) for i, n in enumerate(names)])]
    viols = []
    tree = Tag("div", *[Tag("span", d) if i % 2 else d for i, d in enumerate(deps)])
    got = tree.get_dependencies()
    gi = [next(i for i, d in enumerate(deps) if d is g) for g in got]
    if gi != exp:
        viols.append(("resolve:name-identity", f"names {names}: kept {gi}, expected {exp} (names are compared as exact strings)",
                      {"names": names}))
    return (len(names) >= 2, tuple(exp), viols, 1)


# ---------------------------------------------------------- validation matrix
ITEM = {"script": {"src": "a.js"}, "stylesheet": {"href": "a.css"}, "meta": {"name": "n", "content": "c"}}
ITEM2 = {"script": {"src": "b.js", "defer": ""}, "stylesheet": {"href": "b.css", "media": "print"},
         "meta": {"name": "n2", "content": "c2"}}
REQ = {"script": ["src"], "stylesheet": ["href"], "meta": ["name", "content"]}


def validation_cases():
    cases = []
    for field in ("script", "stylesheet", "meta"):
        cases.append(["equal-forms", field])
        cases.append(["bad-item", field, "alone-str"])
        cases.append(["bad-item", field, "alone-int"])
        cases.append(["bad-item", field, "list-pos0"])
        cases.append(["bad-item", field, "list-pos1"])
        cases.append(["bad-item", field, "list-of-list"])
        cases.append(["bad-item", field, "empty-dict"])
        cases.append(["bad-item", field, "list-empty-dict"])
        cases.append(["bad-item", field, "empty-str"])
        cases.append(["bad-item", field, "zero"])
        for how in ("userdict", "mappingproxy", "custom-mapping", "list-userdict-pos1", "list-none-pos1", "list-int",
                    "tuple-of-bytes", "list-pair-tuple", "list-items-view"):
            cases.append(["bad-item2", field, how])
        for k in REQ[field]:
            cases.append(["missing-key", field, k, "single"])
            cases.append(["missing-key", field, k, "list-pos0"])
            cases.append(["missing-key", field, k, "list-pos1"])
    cases.append(["bad-meta", "http-equiv-no-name"])
    cases.append(["bad-meta", "charset-only"])
    cases.append(["bad-meta", "name-no-content"])
    for bad in ("str", "list", "int", "tuple"):
        cases.append(["bad-source", bad])
    cases.append(["source-no-key", "empty"])
    cases.append(["source-no-key", "package-only"])
    cases.append(["good-source", "href"])
    cases.append(["good-source", "subdir"])
    cases.append(["good-source", "subdir+package"])
    cases.append(["good-source", "none"])
    return cases


def fn_validation(case):
    from htmltools import HTMLDependency
    viols = []
    kind = case[0]

    def must_reject(**kw):
        try:
            HTMLDependency("x", "1.0", **copy.deepcopy(kw))
        except Exception:
            return
        viols.append((f"validation:{kind}:{case[1]}", f"malformed definition accepted: {case} {kw}", {}))

    if kind == "equal-forms":
        f = case[1]
        a = HTMLDependency("x", "1.0", **{f: copy.deepcopy(ITEM[f])})
        b = HTMLDependency("x", "1.0", **{f: [copy.deepcopy(ITEM[f])]})
        if not (a == b) or getattr(a, f) != getattr(b, f) or a.as_dict() != b.as_dict() \
                or str(a.as_html_tags()) != str(b.as_html_tags()):
            viols.append((f"validation:equal-forms:{f}", "single item and list of one give different dependencies",
                          {"single": repr(getattr(a, f)), "list": repr(getattr(b, f))}))
        two = HTMLDependency("x", "1.0", **{f: [copy.deepcopy(ITEM[f]), copy.deepcopy(ITEM2[f])]})
        if len(getattr(two, f)) != 2 or len(two.as_html_tags()) != 2:
            viols.append((f"validation:list-of-two:{f}", "list of two items not kept as two", {}))
    elif kind == "bad-item":
        f, how = case[1], case[2]
        good = copy.deepcopy(ITEM[f])
        val = {"alone-str": "a.js", "alone-int": 5, "list-pos0": ["a.js", good],
               "list-pos1": [good, "a.js"], "list-of-list": [[good]], "empty-dict": {},
               "list-empty-dict": [good, {}], "empty-str": "x", "zero": 0}[how]
        must_reject(**{f: val})
    elif kind == "bad-item2":
        # items that look like a definition but are not dicts (the statement: "a non-dict ... item ... is rejected
        # when the dependency is constructed")
        import collections
        import types
        f, how = case[1], case[2]
        good = copy.deepcopy(ITEM[f])

        class MyMapping(collections.abc.Mapping):
            def __init__(self, d):
                self._d = d

            def __getitem__(self, k):
                return self._d[k]

            def __iter__(self):
                return iter(self._d)

            def __len__(self):
                return len(self._d)
        val = {"userdict": collections.UserDict(good), "mappingproxy": types.MappingProxyType(good),
               "custom-mapping": MyMapping(good), "list-userdict-pos1": [good, collections.UserDict(copy.deepcopy(good))],
               "list-none-pos1": [good, None], "list-int": [42], "tuple-of-bytes": (b"a.js",),
               "list-pair-tuple": [("a.css", "print")], "list-items-view": [good.items()]}[how]
        if True:
            try:
                HTMLDependency("x", "1.0", **{f: val})
                viols.append((f"validation:{kind}:{f}:{how}", f"non-dict item accepted at construction: {how}", {}))
            except Exception:
                pass
    elif kind == "missing-key":
        f, k, how = case[1], case[2], case[3]
        bad = {kk: vv for kk, vv in ITEM[f].items() if kk != k}
        bad["extra"] = "e"
        good = copy.deepcopy(ITEM[f])
        val = {"single": bad, "list-pos0": [bad, good], "list-pos1": [good, bad]}[how]
        must_reject(**{f: val})
    elif kind == "bad-meta":
        val = {"http-equiv-no-name": {"http-equiv": "refresh", "content": "5"},
               "charset-only": {"charset": "utf-8"},
               "name-no-content": {"name": "n", "http-equiv": "x"}}[case[1]]
        must_reject(meta=val)
        must_reject(meta=[{"name": "ok", "content": "c"}, val])
    elif kind == "bad-source":
        val = {"str": "lib/x", "list": ["lib"], "int": 3, "tuple": ("subdir", "x")}[case[1]]
        must_reject(source=val)
    elif kind == "source-no-key":
        val = {"empty": {}, "package-only": {"package": "htmltools"}}[case[1]]
        must_reject(source=val)
    elif kind == "good-source":
        val = {"href": {"href": "http://x"}, "subdir": {"subdir": "lib"},
               "subdir+package": {"package": "htmltools", "subdir": "lib"}, "none": None}[case[1]]
        try:
            HTMLDependency("x", "1.0", source=val, script={"src": "a.js"})
        except Exception as e:
            viols.append((f"validation:good-source:{case[1]}", f"valid source rejected: {e!r}", {}))
    return (True, kind, viols)


def plan(tier):
    n = 4 if tier == "quick" else 5
    return [
        dict(kind="space", name="sequences-x-placements", fn=fn_seq,
             space=Prod(Seq(Const(KINDS), 0, n), Const(PLACEMENTS)),
             note=f"all sequences of <= {n} of {len(KINDS)} dependency kinds x {len(PLACEMENTS)} placements"),
        dict(kind="space", name="version-order", fn=fn_versions, space=Seq(Const(VERS2), 1, 2 if tier == "quick" else 3),
             note=f"one name, every sequence of <= 2 (quick) / <= 3 versions over {len(VERS2)} multi-component versions"),
        dict(kind="space", name="name-identity", fn=fn_names, space=Seq(Const(NAMES2), 1, 3),
             note="every sequence of <= 3 names that differ only by letter case / case folding / trailing space"),
        dict(kind="space", name="equal-and-repeated-dependencies", fn=fn_equal_dups,
             space=Prod(Seq(Const([0, 1, 2, 3]), 1, 4), Const(["flat", "nested", "mixed", "inline", "void"])),
             note="sequences of <= 4 over two pairs of equal-but-distinct dependency objects (repeats = the same object "
                  "again) x 5 placements: dedup=False keeps every occurrence in order"),
        dict(kind="space", name="many-dependencies", fn=fn_many,
             space=Prod(Const([31, 32, 33, 63, 64, 65, 66, 90, 127, 128, 129, 255, 256, 257, 1025]), Const([1, 3, 30]),
                        Const(["flat", "nested", "mixed", "inline"])),
             note="15 list sizes around the powers of two x {1, 3, 30} distinct names x 4 placements"),
        dict(kind="space", name="constructor-validation", fn=fn_validation, space=Const(validation_cases()),
             note="equal single/list forms and every malformed definition named in the statement"),
    ]
