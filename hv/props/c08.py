"""C08 - rendering and tagify are pure and consistent; tagify returns an independent copy.

E2 over read-only operation sequences (every sequence up to a length bound, on every tree
of a bounded family), E1 over single mutations of copy/original, E1 over pairs for ==.
"""
from __future__ import annotations

import copy
import os
import sys
import shutil
import tempfile

from ..canon import graph_ids, snap, tag_paths
from ..space import Alt, Const, Prod, Seq, trees
from ..spec import E, T, H, build, walk

ID = "C08"
LEVEL = "model_checking"
RULE = ("family F = every element-rooted tree of depth <= 1, fan-out <= 2 over {div, span, html, "
        "head, body, p with attribute values that need escaping} x {text, HTML(), two dependencies, two tagifiable objects}, plus curated "
        "deeper trees, top-level lists and documents; (a) every sequence of <= 2 (quick) / <= 3 "
        "(thorough) read-only operations: structural snapshot of receiver and arguments "
        "unchanged after every operation and every result equal to the result of that operation "
        "on a fresh object; (b) every single public-API mutation at every tag of tagify()'s result "
        "and of the original leaves the other unchanged, id sets disjoint, fixed point; (c) == on "
        "all pairs of F and on all single-point variants; str/repr/_repr_html_/render agree. "
        "Non-trivial = tree contains a dependency or tagifiable object.")
ASSUMPTIONS = [
    "snapshots cover public fields (name, add_ws, attrs, children, dependency fields) of every "
    "object reachable through children / head; private state of user-defined tagifiable objects "
    "and the lists inside a dependency shared by its default shallow copy are not walked",
    "str and HTML children with equal text are not paired (statement silent)",
]

REACT = {"source": {"package": "htmltools", "subdir": "lib/react"},
         "script": [{"src": "react.production.min.js"}],
         "stylesheet": [{"href": "react.production.min.js", "title": "t"}],
         "meta": [{"name": "m", "content": "c"}], "head": "<link rel=\"x\"/>", "all_files": True}
D1 = ["D", "d", "1.0", REACT]
D2 = ["D", "d", "2.0", {"head_spec": [["E", "title", True, [], [["T", "t"]]]]}]
D3 = ["D", "e", "1.0", {"source": {"href": "https://cdn/x"}, "script": {"src": "e.js"}}]
X1 = ["X", ["E", "div", True, [["id", "x"]], [["T", "exp"], D3]]]
X2 = ["X", ["L", [["T", "p"], ["E", "span", False, [], []]]]]
D4 = ["D", "nosrc", "1.0", {"script": [{"src": "my file é.js"}], "stylesheet": {"href": "a b%.css"}}]
XS_HEAD = ["XS", ["E", "head", True, [], [["E", "title", True, [], [["T", "stored"]]]]]]
XS_DIV = ["XS", ["E", "div", True, [["class", "st"]], [["T", "s"], D3]]]
LEAVES = [T("a"), H("<i>h</i>"), D1, D2, X1, X2]
KINDS = [lambda k: E("div", True, k), lambda k: E("span", False, k), lambda k: E("html", True, k),
         lambda k: E("head", True, k), lambda k: E("body", True, k),
         lambda k: E("p", True, k, [["title", "x\"&<y\n"], ["class", "a b"]])]

CURATED = [
    E("html", True, [E("head", True, [E("title", True, [T("t")]), D1]),
                     E("body", True, [E("div", True, [T("a"), D2, X1], [["class", "c"]])])]),
    E("html", True, [D1, E("body", True, [T("x")]), E("head", True, [])], [["lang", "fr"]]),
    E("html", True, [E("body", True, [X2, X1])], [["class", "k"]]),
    E("body", True, [E("div", True, [E("div", True, [E("span", False, [T("deep"), D1])])])], [["id", "b"]]),
    E("div", True, [E("span", False, [T("a")], [["class", "x y"], ["title", ["H", "&amp;"]]]), H("<b/>"),
                    E("p", True, [X1, T("z")])], [["style", "a:b;"]]),
    E("div", True, [["X", ["X", ["E", "p", True, [], [D2]]]], T("t")]),
    E("div", True, [["X", ["L", [X1, ["X", ["L", []]], T("q")]]]]),
    E("script", True, [T("a<b"), T("c")]),
    E("br", False, []),
    E("div", True, [D1, D1, D2]),
    # tagifiable objects that hand out the same stored object on every call
    E("html", True, [XS_HEAD, E("body", True, [T("b"), D4])]),
    E("div", True, [XS_DIV, T("t"), XS_DIV]),
    E("body", True, [XS_DIV, E("img", False, [D4], [["src", "i.png"]])]),
    E("html", True, [E("head", True, []), E("body", True, [E("br", False, [])])]),
    E("div", True, [T("only text"), D4]),
    E("div", True, [["ME", "user-node"], T("t"), E("span", False, [["ME", "inner"]])]),
    E("div", True, [["ML"], E("p", True, [T("x"), ["ML"]])]),
]


def F_space():
    from ..alpha import only_elements
    return Alt(Const(CURATED), only_elements(trees(Const(LEAVES), KINDS, 1, 2)))


def lists_space():
    t0 = trees(Const(LEAVES), KINDS, 0, 0)
    return Seq(t0, 0, 2).map(lambda ks: ["L", ks])


# --------------------------------------------------------------- read-only ops
def _res(r):
    return (r["html"], tuple(snap(d) for d in r["dependencies"]))


def _save(x):
    from htmltools import HTMLDocument
    d = tempfile.mkdtemp(prefix="hv-c08-")
    try:
        f = os.path.join(d, "index.html")
        ret = x.save_html(f, libdir="lib") if not isinstance(x, HTMLDocument) else x.save_html(f)
        files = sorted(os.path.relpath(os.path.join(dp, fn), d)
                       for dp, _, fns in os.walk(d) for fn in fns)
        return (ret == f, open(f).read(), tuple(files))
    finally:
        shutil.rmtree(d, ignore_errors=True)


def _doc_append(x):
    """a document built over x is appended to: x itself must not change."""
    from htmltools import HTMLDocument, Tag
    d = HTMLDocument(x)
    d.append(Tag("p", "appended"), "more")
    d2 = HTMLDocument(x)
    return (_res(d.render()), _res(d2.render()))


def _failing(thunk):
    """an operation that fails half-way (an object in the same tree raises from tagify())"""
    try:
        thunk()
    except RuntimeError as e:
        return ("raised", str(e))
    return ("no-error",)


def _with_empty(x):
    """the tag is used as a context manager with an empty body (nothing displayed): nothing about it changes"""
    from htmltools import Tag
    if not isinstance(x, Tag):
        return "not-a-tag"
    saved = sys.displayhook
    got = []
    sys.displayhook = got.append
    try:
        with x:
            pass
    finally:
        sys.displayhook = saved
    return ("handed", len(got), got[0] is x if got else None)


def _globals():
    import htmltools
    return (sys.displayhook, htmltools.html_dependency_render_mode)


def _ops():
    from htmltools import HTMLDocument, Tag, TagList
    from ..spec import Boom
    return {
        "tagify": lambda x: snap(x.tagify()),
        "render": lambda x: _res(x.render()),
        "str": lambda x: str(x),
        "repr": lambda x: repr(x),
        "_repr_html_": lambda x: x._repr_html_(),
        "get_html_string": lambda x: x.get_html_string(),
        "get_html_string(1,crlf)": lambda x: x.get_html_string(1, "\r\n"),
        "get_dependencies": lambda x: tuple(snap(d) for d in x.get_dependencies()),
        "get_dependencies(dedup=False)": lambda x: tuple(snap(d) for d in x.get_dependencies(dedup=False)),
        "copy": lambda x: snap(copy.copy(x)),
        "doc.render": lambda x: _res(HTMLDocument(x).render()),
        "doc(lang).render": lambda x: _res(HTMLDocument(x, lang="en").render()),
        "doc(class).render(noprefix)": lambda x: _res(HTMLDocument(x, class_="k").render(lib_prefix=None, include_version=False)),
        "eq": lambda x: (x == x, x == copy.copy(x)),
        "doc.append": lambda x: _doc_append(x),
        "save_html": _save,
        "with-empty-block": _with_empty,
        "render-beside-failing-object": lambda x: _failing(lambda: Tag("div", x, Boom()).render()),
        "doc.render-beside-failing-object": lambda x: _failing(lambda: HTMLDocument(x, Tag("p", Boom())).render()),
        "save_html-beside-failing-object": lambda x: _failing(lambda: _save(TagList(x, Boom()))),
    }


def _doc_copy_same(d):
    """copy.copy() of a document is a document with the same content: it renders the same, and appending to it does
    not reach the original"""
    c = copy.copy(d)
    same = _res(c.render()) == _res(d.render()) and snap(c) == snap(d)
    before = snap(d)
    c.append("appended-to-the-copy")
    return (same, snap(d) == before)


DOC_OPS = {
    "copy-is-the-same-document": _doc_copy_same,
    "render": lambda d: _res(d.render()),
    "render(noprefix)": lambda d: _res(d.render(lib_prefix=None, include_version=False)),
    "copy": lambda d: snap(copy.copy(d)),
    "copy.render": lambda d: _res(copy.copy(d).render()),
    "save_html": _save,
}

DEP_OPS = {
    "as_html_tags": lambda d: snap(d.as_html_tags()),
    "as_html_tags(noprefix)": lambda d: snap(d.as_html_tags(lib_prefix=None, include_version=False)),
    "as_dict": lambda d: repr(d.as_dict()),
    "as_dict(x/y)": lambda d: repr(d.as_dict(lib_prefix="x/y")),
    "source_path_map": lambda d: repr(d.source_path_map()),
    "serialize": lambda d: d.serialize_to_script_json().get_html_string(),
    "serialize(indent=2)": lambda d: d.serialize_to_script_json(indent=2).get_html_string(),
    "str": lambda d: str(d),
    "repr": lambda d: repr(d),
    "copy": lambda d: snap(copy.copy(d)),
    "eq": lambda d: (d == d, d == copy.copy(d)),
    "in-tree-render": lambda d: __import__("htmltools").Tag("div", d).render()["html"],
    "doc-render": lambda d: _res(__import__("htmltools").HTMLDocument(d).render()),
    # the mapping source_path_map() returns is the caller's: changing it must not reach this or ANY other dependency
    # (as_dict() hands out the dependency's own meta list and as_html_tags() its own head tags; the statement does not
    # promise otherwise, so their results are left alone)
    "source_path_map+change-the-result": lambda d: _mutate_result(d, "source_path_map"),
}


def _mutate_result(d, what):
    if what == "source_path_map":
        m = d.source_path_map()
        before = repr(m)
        m["href"] = "static/" + m["href"]
        m["source"] = "/somewhere/else"
        m["extra"] = 1
        return before
    raise ValueError(what)

SUBS = [
    ["ES", "div", True, [["id", "i"]], [T("a"), ["ES", "span", False, [], [T("b")]], D1]],
    ["TLX", [T("a"), E("p", True, [T("p")]), D1]],
    ["ECX", "div", True, [["class", "k"]], [T("a"), E("span", False, [T("s")]), D3]],
    E("div", True, [["ES", "p", True, [], [["ECX", "i", False, [], [T("deep")]]]], T("t")]),
    ["ES", "section", True, [], [X1, T("z")]],
    ["TLX", [["ES", "b", False, [], [T("x")]], X2]],
    ["ECX", "body", True, [], [["ES", "div", True, [], [D2]]]],
]
OPS_QUICK = ["tagify", "render", "str", "get_html_string", "get_dependencies", "copy", "with-empty-block",
             "doc.render", "doc(lang).render", "doc(class).render(noprefix)", "eq", "doc.append"]

_BASE = {}


class ProgrammingError(Exception):
    pass


def run_op(table, name, x):
    try:
        return ("ok", table[name](x))
    except (KeyError, AttributeError, NameError, IndexError, UnboundLocalError, AssertionError, RecursionError) as e:
        # never legitimate for a read-only operation on a well-formed object: comparing "raises the same as on a fresh
        # object" would be blind to it
        raise ProgrammingError(f"{name} raised {type(e).__name__}: {e}")
    except Exception as e:  # legit for e.g. get_html_string on an un-expanded object
        return ("raises", type(e).__name__, str(e)[:80])


def nontrivial_spec(spec):
    return any(n[0] in ("D", "X", "XS") for n in walk(spec))


def make_fn_seq(table_fn, builder, key):
    def fn(case):
        spec, seq = case
        table = table_fn()
        viols = []
        x = builder(spec)
        s0 = snap(x)
        fresh = builder(spec)
        comparable = key != "doc" and '"ML"' not in __import__("json").dumps(spec)   # no == for documents / lock nodes
        if comparable and not ((x == fresh) and (fresh == x)):
            viols.append(("eq:identical-unequal", "two identically built objects compare unequal", {}))
        g0 = _globals()
        for k, name in enumerate(seq):
            bk = (key, repr(spec), name)
            if bk not in _BASE:
                if len(_BASE) > 200000:
                    _BASE.clear()
                _BASE[bk] = run_op(table, name, builder(spec))
            r = run_op(table, name, x)
            s1 = snap(x)
            if _globals() != g0:
                viols.append((f"global-state:{name}", f"{name} left sys.displayhook / html_dependency_render_mode changed",
                              {"sequence": seq[:k + 1]}))
                sys.displayhook, __import__("htmltools").html_dependency_render_mode = g0
                break
            if s1 != s0:
                viols.append((f"mutates:{name}", f"{name} changed its receiver/argument",
                              {"sequence": seq[:k + 1], "before": s0, "after": s1}))
                break
            if comparable and not ((x == fresh) and (fresh == x)):
                viols.append((f"eq-after:{name}", f"after {name} the object no longer compares equal (both ways) to an "
                              "identically built one", {"sequence": seq[:k + 1]}))
                break
            if name == "copy-is-the-same-document" and r != ("ok", (True, True)):
                viols.append(("copy:document", "copy.copy(document) does not render like the original / shares its content",
                              {"observed": r}))
                break
            if r != _BASE[bk]:
                viols.append((f"result-depends-on-history:{name}",
                              f"{name} after {seq[:k]} gives a different result than on a fresh object",
                              {"sequence": seq[:k + 1], "fresh": _BASE[bk], "observed": r}))
                break
        return (nontrivial_spec(spec) and len(seq) >= 1, None, viols)
    return fn


def build_dep_spec(spec):
    if spec[0] == "DPATH":
        # the sub-directory is given as a pathlib.Path (an os.PathLike) rather than a str
        import pathlib
        from htmltools import HTMLDependency
        return HTMLDependency(spec[1], spec[2], source={"subdir": pathlib.Path(spec[3])}, script={"src": "p.js"})
    return build(spec)


def build_doc(spec):
    """spec = ["DOC", content_specs, attrs]"""
    from htmltools import HTMLDocument
    _, content, attrs = spec
    return HTMLDocument(*[build(c) for c in content], **dict(attrs))


DOCS = [
    ["DOC", [CURATED[0]], []], ["DOC", [CURATED[0]], [["lang", "en"]]],
    ["DOC", [CURATED[1]], [["lang", "en"], ["class_", "k"]]],
    ["DOC", [CURATED[3]], [["lang", "en"]]],
    ["DOC", [T("x"), CURATED[4], D1], [["lang", "en"]]],
    ["DOC", [], []],
    ["DOC", [E("html", True, [], [["lang", "de"], ["class", "a"]])], [["lang", "en"], ["class_", "b"]]],
    ["DOC", [X1], [["data_x", True]]],
]
DEPS = [D1, D2, D3, D4, ["D", "n", "0.1", {}], ["DPATH", "pth", "1.0", "/nonexistent/hv-path-dir"],
        ["D", "s", "3.0.1", {"source": {"subdir": "/nonexistent/dir"}, "script": [{"src": "a b.js", "defer": ""}],
                             "stylesheet": {"href": "s.css"}, "all_files": True}]]


# ------------------------------------------------------ (b) tagify independence
MUTATIONS = ["append", "insert0", "setchild0", "delchild0", "attr", "add_class", "rename", "flipws",
             "attr-update", "children-extend"]


def mutate(tag, m):
    if m == "append":
        tag.append("NEW")
    elif m == "insert0":
        tag.insert(0, "NEW")
    elif m == "setchild0":
        if len(tag.children) == 0:
            return False
        tag.children[0] = "CHANGED"
    elif m == "delchild0":
        if len(tag.children) == 0:
            return False
        del tag.children[0]
    elif m == "attr":
        tag.attrs["data-new"] = "v"
    elif m == "attr-update":
        tag.attrs.update({"class": "zzz"})
    elif m == "add_class":
        tag.add_class("added")
    elif m == "rename":
        tag.name = tag.name + "x"
    elif m == "flipws":
        tag.add_ws = not tag.add_ws
    elif m == "children-extend":
        tag.children.extend(["E1", "E2"])
    return True


def meta_paths(x, path=()):
    from htmltools import MetadataNode, Tag, TagList
    kids = x.children if isinstance(x, Tag) else x
    for i, c in enumerate(kids):
        if isinstance(c, MetadataNode):
            yield path + (i,), c
        elif isinstance(c, Tag):
            yield from meta_paths(c, path + (i,))


def fn_independence(spec):
    from htmltools import HTMLDependency
    viols = []
    has_x = any(n[0] in ("X", "XR", "XS") for n in walk(spec))
    x = build(spec)
    y = x.tagify()
    sx, sy = snap(x), snap(y)
    shared = set(graph_ids(x)) & set(graph_ids(y))
    if shared:
        objs = [type(graph_ids(x)[i]).__name__ for i in shared]
        viols.append(("tagify:shares-objects", f"tagify() result shares {sorted(set(objs))} with the original",
                      {"shared_types": objs}))
    has_ml = any(n[0] == "ML" for n in walk(spec))
    if not has_x and not has_ml and not (y == x):
        viols.append(("tagify:not-equal", "tagify() of a tree needing no expansion is not == the original", {}))
    if not has_x and sx != sy:
        viols.append(("tagify:not-structurally-equal", "tagify() changed the structure of a tree "
                      "needing no expansion", {"original": sx, "copy": sy}))
    c = copy.copy(x)
    if snap(c) != sx:
        viols.append(("copy:not-structurally-equal", "copy.copy() result differs from the original (type, extra "
                      "attributes of user subclasses, attributes or children)", {"original": sx, "copy": snap(c)}))
    elif not has_ml and not (c == x and x == c):
        viols.append(("copy:not-equal", "copy.copy() result is not == the original", {}))
    yy = y.tagify()
    if (not has_ml and not (yy == y)) or snap(yy) != sy:
        viols.append(("tagify:not-fixed-point", "tagify() of a tagified tree differs from it", {}))
    if viols:
        return (nontrivial_spec(spec), None, viols)
    # single mutations: of the copy, then of the original
    ntags = len(list(tag_paths(y)))
    nmut = 0
    for side in ("copy", "original"):
        npaths = len(list(tag_paths(y if side == "copy" else x)))
        for pi in range(npaths):
            for m in MUTATIONS:
                x2 = build(spec)
                y2 = x2.tagify()
                target_root, other = (y2, x2) if side == "copy" else (x2, y2)
                s_other = snap(other)
                path, tag = list(tag_paths(target_root))[pi]
                if not mutate(tag, m):
                    continue
                nmut += 1
                if snap(other) != s_other:
                    viols.append((f"aliasing:{m}:{side}",
                                  f"mutating the {side} ({m} at path {path}) changed the other tree",
                                  {"path": list(path)}))
        # dependencies: rename a metadata node
        nmeta = len(list(meta_paths(y if side == "copy" else x)))
        for mi in range(nmeta):
            x2 = build(spec)
            y2 = x2.tagify()
            target_root, other = (y2, x2) if side == "copy" else (x2, y2)
            s_other = snap(other)
            path, node = list(meta_paths(target_root))[mi]
            if hasattr(node, "marks"):
                node.marks.append("mutated")
                node.label = node.label + "-mutated"
                nmut += 1
                if snap(other) != s_other:
                    viols.append((f"aliasing:user-metadata:{side}",
                                  f"changing a user metadata node of the {side} changed the other tree", {"path": list(path)}))
            if isinstance(node, HTMLDependency):
                node.name = node.name + "-renamed"
                node.all_files = not node.all_files
                # ... and what it holds, through the public attributes
                if node.head is not None:
                    node.head.append("head-mutated")
                    for c in node.head:
                        if hasattr(c, "add_class"):
                            c.add_class("head-tag-mutated")
                if node.script:
                    node.script[0]["src"] = "mutated.js"
                    node.script.append({"src": "added.js"})
                if node.stylesheet:
                    node.stylesheet[0]["href"] = "mutated.css"
                if node.meta:
                    node.meta.append({"name": "added", "content": "x"})
                if isinstance(node.source, dict):
                    node.source["mutated"] = "yes"
                nmut += 1
                if snap(other) != s_other:
                    viols.append((f"aliasing:dep-rename:{side}",
                                  f"renaming a dependency of the {side} changed the other tree",
                                  {"path": list(path)}))
    return (nontrivial_spec(spec), (ntags, nmut), viols)


# ------------------------------------------------------------------ (c) views, ==
def fn_views(spec):
    import htmltools
    x = build(spec)
    viols = []
    assert htmltools.html_dependency_render_mode == "invisible"
    a, b, c, d = str(x), repr(x), x._repr_html_(), x.render()["html"]
    if not (a == b == c == d):
        viols.append(("views-differ", "str / repr / _repr_html_ / render()['html'] differ",
                      {"str": a, "repr": b, "_repr_html_": c, "render": d}))
    return (nontrivial_spec(spec), None, viols)


def variants(spec):
    """single-point variants of an element spec that must compare unequal to it."""
    out = []
    k, name, ws, attrs, kids = spec
    out.append(("name", [k, name + "x", ws, attrs, kids]))
    out.append(("ws", [k, name, not ws, attrs, kids]))
    out.append(("attr-added", [k, name, ws, attrs + [["data-q", "1"]], kids]))
    if attrs:
        out.append(("attr-removed", [k, name, ws, attrs[1:], kids]))
        a0 = attrs[0]
        if isinstance(a0[1], str):
            out.append(("attr-value", [k, name, ws, [[a0[0], a0[1] + "!"]] + attrs[1:], kids]))
    out.append(("child-added", [k, name, ws, attrs, kids + [T("extra")]]))
    if kids:
        out.append(("child-removed", [k, name, ws, attrs, kids[1:]]))
        c0 = kids[0]
        if c0[0] == "T":
            out.append(("child-text", [k, name, ws, attrs, [T(c0[1] + "!")] + kids[1:]]))
        if c0[0] == "E":
            for what, v in variants(c0):
                out.append(("nested-" + what, [k, name, ws, attrs, [v] + kids[1:]]))
        if c0[0] == "D":
            out.append(("dep-version", [k, name, ws, attrs, [["D", c0[1], "9.9", c0[3]]] + kids[1:]]))
            out.append(("dep-name", [k, name, ws, attrs, [["D", c0[1] + "x", c0[2], c0[3]]] + kids[1:]]))
        if len(kids) >= 2 and kids[0] != kids[1]:
            out.append(("children-swapped", [k, name, ws, attrs, [kids[1], kids[0]] + kids[2:]]))
    return out


def fn_variants(spec):
    from htmltools import TagList
    viols = []
    if any(n[0] == "ML" for n in walk(spec)):
        return (False, "no-eq", [])      # lock-holding user nodes define no equality
    x = build(spec)
    same = build(spec)
    if not (x == same) or (x != same):
        viols.append(("eq:identical-unequal", "two structurally identical trees compare unequal", {}))
    n = 0
    for what, v in variants(spec):
        n += 1
        y = build(v)
        if x == y or y == x:
            viols.append((f"eq:variant-equal:{what}", f"trees differing in {what} compare equal",
                          {"variant": v}))
    # different kinds
    others = [TagList(*[build(c) for c in spec[4]]), str(x), build(D2), None, 5, build(X1)]
    for o in others:
        if x == o:
            viols.append(("eq:different-kind", f"a Tag compares equal to a {type(o).__name__}", {}))
    tl = TagList(build(spec))
    if tl == x or x == tl:
        viols.append(("eq:different-kind", "TagList == Tag", {}))
    if not (TagList(build(spec)) == TagList(build(spec))):
        viols.append(("eq:identical-unequal", "identical TagLists compare unequal", {}))
    d1, d2 = build(D1), build(D1)
    if not (d1 == d2):
        viols.append(("eq:identical-unequal", "identical dependencies compare unequal", {}))
    return (True, n, viols)


def fn_pair(case):
    a, b = case
    x, y = build(a), build(b)
    viols = []
    same = a == b
    if (x == y) != same:
        viols.append(("eq:pair", f"== is {x == y} for specs that are {'identical' if same else 'different'}",
                      {"a": a, "b": b}))
    return (same, None, viols)


def plan(tier):
    F = F_space()
    L = lists_space()
    table = _ops()
    names = OPS_QUICK if tier == "quick" else [n for n in table if "failing" not in n]
    n = 2 if tier == "quick" else 3
    fn_seq = make_fn_seq(_ops, build, "tree")
    fn_doc = make_fn_seq(lambda: DOC_OPS, build_doc, "doc")
    fn_dep = make_fn_seq(lambda: DEP_OPS, build_dep_spec, "dep")
    out = [
        dict(kind="space", name="readonly-sequences-trees", fn=fn_seq, execs=n,
             space=Prod(F, Seq(Const(names), 1, n)),
             note=f"{F.size} trees x all sequences of 1..{n} of {len(names)} read-only operations"),
        dict(kind="space", name="readonly-sequences-save_html", fn=fn_seq, execs=2,
             space=Prod(Const(CURATED), Seq(Const(["save_html", "render", "doc(lang).render", "tagify"]), 1, 2 if tier == "quick" else 3)),
             note="curated trees x sequences including save_html into a private directory"),
        dict(kind="space", name="readonly-sequences-lists", fn=fn_seq, execs=n,
             space=Prod(L, Seq(Const(names), 1, 2)),
             note=f"{L.size} top-level lists x all sequences of 1..2 operations"),
        dict(kind="space", name="readonly-sequences-documents", fn=fn_doc, execs=3,
             space=Prod(Const(DOCS), Seq(Const(list(DOC_OPS)), 1, 3)),
             note=f"{len(DOCS)} documents (incl. lone <html> with html attribute arguments) x sequences of 1..3 of {len(DOC_OPS)} operations"),
        dict(kind="space", name="readonly-sequences-dependencies", fn=fn_dep, execs=n,
             space=Prod(Const(DEPS), Seq(Const(list(DEP_OPS)), 1, n)),
             note=f"{len(DEPS)} dependencies x sequences of 1..{n} of {len(DEP_OPS)} operations"),
        dict(kind="space", name="tagify-independence", fn=fn_independence, space=Alt(F, L),
             execs=20, note="ids disjoint, equality, fixed point, every single mutation of copy / original"),
        dict(kind="space", name="views-agree", fn=fn_views, space=Alt(F, L), execs=4,
             note="str == repr == _repr_html_ == render()['html']"),
        dict(kind="space", name="eq-variants", fn=fn_variants, space=F, execs=12,
             note="every single-point variant compares unequal; identical compare equal; other kinds unequal"),
    ]
    fail_ops = ["render-beside-failing-object", "doc.render-beside-failing-object", "save_html-beside-failing-object",
                "render", "str", "doc.render", "tagify"]
    out += [
        dict(kind="space", name="user-subclasses-readonly-sequences", fn=fn_seq, execs=n,
             space=Prod(Const(SUBS), Seq(Const(names), 1, n)),
             note=f"{len(SUBS)} trees/lists built from user subclasses of Tag and TagList (extra instance attributes; a "
                  "subclassed child list) x sequences of read-only operations"),
        dict(kind="space", name="user-subclasses-independence", fn=fn_independence, space=Const(SUBS), execs=20,
             note="copy.copy()/tagify() keep the subclass type and its attributes, result == original, independence"),
        dict(kind="space", name="user-subclasses-views", fn=fn_views, space=Const(SUBS), execs=4,
             note="str == repr == _repr_html_ == render()['html'] for subclass instances"),
        dict(kind="space", name="operations-that-fail-half-way", fn=fn_seq, execs=n,
             space=Prod(Const(CURATED + SUBS), Seq(Const(fail_ops), 1, n)),
             note="sequences mixing successful operations with renders/saves that raise because another object in the "
                  "same tree fails in tagify(): receivers unchanged, later results unchanged, sys.displayhook and the "
                  "dependency render mode restored"),
    ]
    t1 = trees(Const([T("a"), H("<i>h</i>"), D1, D2]), KINDS[:3], 1, 1 if tier == "quick" else 2)
    out.append(dict(kind="space", name="eq-pairs", fn=fn_pair, space=Prod(t1, t1), execs=1,
                    note=f"all ordered pairs of {t1.size} small trees/leaves: == iff specs identical"))
    return out
