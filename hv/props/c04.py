"""C04 - trusted markup is emitted verbatim and escaping happens exactly once.

(a) E1: markup strings (all strings of <= k tokens over a markup-token alphabet) as HTML()
child, _repr_html_ result, script/style text and HTML() attribute value in every emission
context; oracle: output == prefix + M + suffix byte for byte.
(b) E2 over expression trees: every operand sequence x every binary grouping x every
spelling (+ / +=; reflected + arises whenever the left operand is not HTML).
"""
from __future__ import annotations

import operator

from ..ref.escape import canon_text_escape
from ..space import Const, Prod, Seq

ID = "C04"
LEVEL = "model_checking"
RULE = ("(a) every string of <= 3 (quick) / <= 4 (thorough) tokens over {<b>, &amp;, &, \", LF, CR LF, CR, </div>, "
        "<!--, e-acute, '} as HTML() child / _repr_html_ result / script+style text / HTML() attribute "
        "value in each emission context; (b) every operand sequence of length <= 5 (quick) / <= 6 "
        "(thorough) over {plain '<&>' plus both quote characters, 'x&' as an instance of a str subclass, HTML('<&>'), HTML(''), 5, object with __str__} holding "
        ">= 1 HTML, x every binary grouping x every +/+= spelling of every operator. Non-trivial = "
        "markup contains a metacharacter / expression mixes plain and HTML operands. Distinct by "
        "construction.")
ASSUMPTIONS = [
    "a maximal HTML-free sub-expression is evaluated natively first and counts as one plain operand; "
    "groupings whose HTML-free part raises natively (e.g. 'x&' + 5) are skipped and counted",
    "expected text of a plain operand is its str() escaped once with the text rules (& < >)",
]

TOKENS = ["<b>", "&amp;", "&", '"', "\n", "</div>", "<!--", "é", "'", "\r\n", "\r"]
PH = "PH"


def _contexts():
    from htmltools import HTML, Tag, TagList
    from ..spec import Repr
    div = lambda *a, **k: Tag("div", *a, _add_ws=True, **k)      # noqa: E731
    span = lambda *a, **k: Tag("span", *a, _add_ws=False, **k)   # noqa: E731
    g = lambda x: x.get_html_string()                            # noqa: E731
    ctx = {}
    for kind, mk in (("HTML", HTML), ("repr", Repr)):
        ctx.update({
            f"{kind}:only-block": lambda s, mk=mk: g(div(mk(s))),
            f"{kind}:only-inline": lambda s, mk=mk: g(span(mk(s))),
            f"{kind}:first-block": lambda s, mk=mk: g(div(mk(s), span("y"), "z")),
            f"{kind}:mid-block": lambda s, mk=mk: g(div(span("y"), mk(s), "z")),
            f"{kind}:last-block": lambda s, mk=mk: g(div("z", div("y"), mk(s))),
            f"{kind}:mid-inline": lambda s, mk=mk: g(span("a&", mk(s), "z")),
            f"{kind}:top-list": lambda s, mk=mk: TagList(div("q"), mk(s), "t").get_html_string(1, "\r\n"),
            f"{kind}:between-blocks": lambda s, mk=mk: g(div(div(), mk(s), div())),
            f"{kind}:render": lambda s, mk=mk: div("a", mk(s)).render()["html"],
            f"{kind}:str": lambda s, mk=mk: str(TagList(mk(s), span())),
            f"{kind}:deep": lambda s, mk=mk: div(div(span(mk(s)), "w")).get_html_string(2),
        })
    def via_displayhook(s, mk):
        import sys
        t = div("lead")
        saved = sys.displayhook
        sys.displayhook = lambda v: None
        try:
            with t:
                sys.displayhook(mk(s))
                sys.displayhook("z")
        finally:
            sys.displayhook = saved
        return g(t)
    ctx["HTML:with-block"] = lambda s: via_displayhook(s, HTML)
    ctx["repr:with-block"] = lambda s: via_displayhook(s, Repr)
    from ..spec import TagifRepr
    ctx["repr:also-tagifiable"] = lambda s: g(div("a", TagifRepr(["T", "x"], s), span("b")))
    ctx["repr:also-tagifiable-only"] = lambda s: TagList(TagifRepr(["T", "x"], s)).get_html_string()
    ctx["repr:tagify-result"] = lambda s: Tag("div", "a", __import__("hv.spec", fromlist=["Tagif"]).Tagif(["H", s])).render()["html"]
    ctx.update({
        "script:only": lambda s: g(Tag("script", s)),
        "script:several": lambda s: g(Tag("script", "a<", s, 3)),
        "script:several-first": lambda s: g(Tag("script", s, "&b")),
        "style:only": lambda s: g(Tag("style", s)),
        "style:mixed": lambda s: g(Tag("style", 1, s, "c>d", _add_ws=False)),
        "script:html-child": lambda s: g(Tag("script", HTML(s))),
        "script:html-several": lambda s: g(Tag("script", "x", HTML(s))),
        "script:in-doc": lambda s: __import__("htmltools").HTMLDocument(Tag("script", s, "z")).render()["html"],
        "attr:only": lambda s: g(div(title=HTML(s))),
        "attr:positional": lambda s: g(div({"data-x": HTML(s)}, "child", id="i")),
        "attr:merge-html-html": lambda s: g(div({"class": HTML("a&")}, class_=HTML(s))),
        "attr:merge-first": lambda s: g(div({"class": HTML(s)}, class_=HTML("&b"))),
        "attr:add_class": lambda s: g(div(class_=HTML("h")).add_class(HTML(s))),
        "attr:add_style": lambda s: g(div().add_style(HTML(s + ";"))),
        "attr:setitem": lambda s: g(_set(div(), "title", HTML(s))),
        "attr:void": lambda s: g(Tag("img", alt=HTML(s))),
    })
    return ctx


def _set(t, k, v):
    t.attrs[k] = v
    return t


_FR = {}


def frames():
    if not _FR:
        for name, f in _contexts().items():
            out = f(PH)
            assert out.count(PH) == 1, (name, out)
            pre, suf = out.split(PH)
            _FR[name] = (f, pre, suf)
    return _FR


def fn_markup(toks):
    m = "".join(toks)
    viols = []
    n = 0
    for name, (f, pre, suf) in frames().items():
        out = f(m)
        n += 1
        if out != pre + m + suf:
            viols.append((f"not-verbatim:{name.split(':')[0]}:{name}",
                          f"trusted markup {m!r} not emitted verbatim in context {name}",
                          {"observed": out, "expected": pre + m + suf}))
    return (any(c in m for c in "&<>\"'"), None, viols, n)


# ----------------------------------------------------------- (b) expressions
def chars_of(v):
    """the text a plain operand stands for: the characters of a str (also of a str subclass
    instance), str(v) of anything else."""
    return str.__str__(v) if isinstance(v, str) else str(v)


class LoudOperand(str):
    """str subclass whose __str__/__format__ are not its characters."""

    def __str__(self):
        return "<STR>"

    def __format__(self, spec):
        return "<FMT>"


class Obj:
    def __str__(self):
        return "o<&"


def operand(code):
    from htmltools import HTML
    if code == "p1":
        return "<&>\"'\r\n"
    if code == "p2":
        return LoudOperand("x&")       # a str subclass: contributes its characters, like any str
    if code == "h1":
        return HTML("<&>\r")
    if code == "h0":
        return HTML("")
    if code == "n":
        return 5
    if code == "o":
        return Obj()
    raise ValueError(code)


OPERANDS = ["p1", "p2", "h1", "h0", "n", "o"]


def groupings(lo, hi):
    """all binary trees over leaves lo..hi-1: leaf = int, node = (left, right)."""
    if hi - lo == 1:
        return [lo]
    out = []
    for mid in range(lo + 1, hi):
        for l in groupings(lo, mid):
            for r in groupings(mid, hi):
                out.append((l, r))
    return out


_GROUP = {n: groupings(0, n) for n in range(1, 7)}


def count_nodes(t):
    return 0 if isinstance(t, int) else 1 + count_nodes(t[0]) + count_nodes(t[1])


class NativeError(Exception):
    pass


def evaluate(tree, codes, spell, counter, leaves=None):
    """-> (value, is_html, parts) ; parts = list of ('plain', value) | ('html', markup)."""
    from htmltools import HTML
    if isinstance(tree, int):
        v = operand(codes[tree])
        if leaves is not None:
            leaves.append((v, chars_of(v)))
        if isinstance(v, HTML):
            return v, True, [("html", str(v))]
        return v, False, [("plain", v)]
    l, lh, lp = evaluate(tree[0], codes, spell, counter, leaves)
    r, rh, rp = evaluate(tree[1], codes, spell, counter, leaves)
    k = counter[0]
    counter[0] += 1
    use_iadd = (spell >> k) & 1
    if not lh and not rh:
        try:
            v = operator.iadd(l, r) if use_iadd else l + r
        except TypeError:
            raise NativeError()
        return v, False, [("plain", v)]
    v = operator.iadd(l, r) if use_iadd else l + r
    return v, True, lp + rp


def fn_expr(codes):
    from htmltools import HTML, Tag, TagList
    viols = []
    n = len(codes)
    if not any(c.startswith("h") for c in codes):
        return (False, "no-html", [], 0)
    nex = 0
    skipped = 0
    mixes = any(not c.startswith("h") for c in codes)
    for tree in _GROUP[n]:
        nn = count_nodes(tree)
        for spell in range(1 << nn):
            leaves = []
            try:
                v, is_html, parts = evaluate(tree, codes, spell, [0], leaves)
            except NativeError:
                skipped += 1
                continue
            nex += 1
            desc = {"operands": codes, "grouping": repr(tree), "iadd_mask": spell}
            changed = [t for (o, t) in leaves if chars_of(o) != t]
            if changed:
                viols.append(("expr:operand-mutated", "evaluating the concatenation changed one of its operands "
                              f"(was {changed[0]!r})", desc))
                continue
            if not isinstance(v, HTML):
                viols.append(("expr:not-HTML", f"concatenation result is {type(v).__name__}, not HTML", desc))
                continue
            exp = "".join(p[1] if p[0] == "html" else canon_text_escape(chars_of(p[1])) for p in parts)
            got = Tag("div", v).get_html_string()
            if got != "<div>" + exp + "</div>":
                viols.append(("expr:wrong-escaping", "rendering of the concatenation differs from its "
                              "operands rendered as adjacent children (each plain operand escaped once)",
                              dict(desc, observed=got, expected="<div>" + exp + "</div>")))
                continue
            kids = [HTML(p[1]) if p[0] == "html" else chars_of(p[1]) for p in parts]
            adj = Tag("span", "", *kids, _add_ws=False).get_html_string()
            if adj != "<span>" + exp + "</span>":
                viols.append(("expr:adjacent-children", "adjacent children render differently from the reference",
                              dict(desc, observed=adj, expected="<span>" + exp + "</span>")))
            if str(v) != exp or v.as_string() != exp:
                viols.append(("expr:str", "str() of the result differs from its rendering", desc))
            # as a top-level list item and in an inline parent too
            if TagList("a", v).get_html_string() != "a" + exp:
                viols.append(("expr:toplist", "rendering in a top-level list differs", desc))
    return (mixes, (skipped,), viols, nex)


RAW_KIDS = [["T", "a<b && c"], ["H", "x&&y</p>"], ["N", 3], ["T", ""], ["H", ""], ["T", "l1\nl2"], ["TS", "sub<x"]]


def fn_rawtext(case):
    """script/style with every short child sequence: compared with the reference layout (absolute,
    not differential): text and HTML() children verbatim, nothing else escaped or added."""
    from ..ref.layout import ref_render_tag
    from ..spec import build
    name, ws, kids, cfg = case
    spec = ["E", name, ws, [["type", "t/x"]] if len(kids) % 2 else [], kids]
    got = build(spec).get_html_string(*cfg)
    exp = ref_render_tag(spec, *cfg)
    viols = []
    if got != exp:
        viols.append((f"raw-text:{name}", f"<{name} ws={ws}> with children {kids} renders wrongly for {cfg}",
                      {"observed": got, "expected": exp}))
    in_div = build(["E", "div", True, [], [["T", "t<"], spec, ["H", "<hr>"]]]).get_html_string(*cfg)
    exp2 = ref_render_tag(["E", "div", True, [], [["T", "t<"], spec, ["H", "<hr>"]]], *cfg)
    if in_div != exp2 and not viols:
        viols.append((f"raw-text-nested:{name}", f"<{name}> inside a div renders wrongly", {"observed": in_div, "expected": exp2}))
    return (any(k[0] == "H" for k in kids), got, viols, 2)


class ReprReturningHTML:
    """self-rendering object whose _repr_html_() hands back an HTML() object instead of a str."""

    def __init__(self, markup):
        self.markup = markup

    def _repr_html_(self):
        from htmltools import HTML
        return HTML(self.markup)


def fn_repr_type(case):
    """an object whose _repr_html_() returns HTML(m) renders exactly like one returning the str m -
    in particular nothing that was emitted BEFORE it may change."""
    from htmltools import Tag, TagList
    from ..spec import Repr
    m, shape = case
    viols = []

    def mk(obj):
        div = lambda *a: Tag("div", *a, _add_ws=True)          # noqa: E731
        span = lambda *a: Tag("span", *a, _add_ws=False)       # noqa: E731
        return {"after-block": lambda: TagList(div("a<"), obj).get_html_string(),
                "in-block": lambda: div("t&", span("i"), obj, "z").get_html_string(),
                "in-inline": lambda: span("x<", obj).get_html_string(),
                "first": lambda: div(obj, div("b")).get_html_string(1, "\r\n"),
                "twice": lambda: TagList(obj, "m&", obj).get_html_string(),
                "render": lambda: div(div("p"), obj).render()["html"],
                "in-script-sibling": lambda: div(Tag("script", "a<b"), obj).get_html_string()}[shape]()
    a = mk(Repr(m))
    b = mk(ReprReturningHTML(m))
    if type(b) is not str or a != b:
        viols.append((f"repr-returns-HTML:{shape}", "an object whose _repr_html_() returns HTML() renders differently "
                      "from one returning the same markup as str", {"str": a, "HTML": str(b), "result_type": type(b).__name__}))
    return (True, None, viols, 2)


LONG_UNITS = ["<b>&amp;\"x\"</b>", "a&b<c>d ", "é<!--&-->"]


def fn_long(case):
    """history: the same long string rendered as plain text and as HTML(), in both orders."""
    from htmltools import HTML, Tag, TagList
    unit, n, order = case
    s = (unit * (n // len(unit) + 1))[:n]
    viols = []
    esc = canon_text_escape(s)
    steps = [("plain", lambda: Tag("div", s).get_html_string(), "<div>" + esc + "</div>"),
             ("html", lambda: Tag("p", HTML(s)).get_html_string(), "<p>" + s + "</p>"),
             ("plain-multi", lambda: TagList(Tag("span", "k", _add_ws=False), s).get_html_string(),
              "<span>k</span>" + esc),
             ("html-multi", lambda: Tag("span", "k", HTML(s), _add_ws=False).get_html_string(),
              "<span>k" + s + "</span>"),
             ("repr", lambda: Tag("span", __import__("hv.spec", fromlist=["Repr"]).Repr(s), "z",
                                  _add_ws=False).get_html_string(),
              "<span>" + s + "z</span>")]
    if order == "html-first":
        steps = [steps[1], steps[0], steps[3], steps[2], steps[4]]
    elif order == "multi-first":
        steps = [steps[3], steps[2], steps[1], steps[0], steps[4]]
    for name, f, exp in steps:
        got = f()
        if got != exp:
            viols.append((f"long-string-history:{name}", f"{name} rendering of a {n}-character string after "
                          f"{order} history is wrong", {"observed": got[:300], "expected": exp[:300]}))
            break
    return (True, None, viols, len(steps))


def plan(tier):
    k = 3 if tier == "quick" else 4
    n = 5 if tier == "quick" else 6
    return [
        dict(kind="space", name="verbatim-markup", space=Seq(Const(TOKENS), 0, k), fn=fn_markup,
             note=f"all strings of <= {k} tokens over {TOKENS!r} x {len(_contexts())} contexts"),
        dict(kind="space", name="raw-text-absolute", fn=fn_rawtext,
             space=Prod(Const(["script", "style"]), Const([True, False]), Seq(Const(RAW_KIDS), 0, 3),
                        Const([(0, "\n"), (1, "\r\n")])),
             note="script/style x ws flag x every sequence of <= 3 children over {text, HTML(), number, empty, "
                  "multi-line} x 2 (indent, eol): byte equality with the reference layout"),
        dict(kind="space", name="repr-returning-HTML-object", fn=fn_repr_type,
             space=Prod(Const(["<b>x</b>", "&amp;<i>", "", "plain"]),
                        Const(["after-block", "in-block", "in-inline", "first", "twice", "render", "in-script-sibling"])),
             note="_repr_html_() returning an HTML() object vs the same markup as str, in 7 positions"),
        dict(kind="space", name="long-string-history", fn=fn_long,
             space=Prod(Const(LONG_UNITS), Const([1, 31, 32, 63, 64, 65, 127, 128, 129, 255, 256, 257, 1000, 4096, 70000]),
                        Const(["plain-first", "html-first", "multi-first"])),
             note="the same 1..70000-character string as plain text, HTML() and _repr_html_ in three orders"),
        dict(kind="space", name="concatenation-expressions", space=Seq(Const(OPERANDS), 1, n), fn=fn_expr,
             note=f"operand sequences of length <= {n} over {OPERANDS} x all groupings x all +/+= spellings"),
    ]
