"""C19 - every tag function creates its own element with the documented default.

Exhaustive over the finite catalogue (113 HTML + 66 SVG functions + 17 top-level
shortcuts; frozen in c19_catalogue.json so a silently dropped function is noticed) x
argument lists x _add_ws values.
"""
from __future__ import annotations

import ast
import json
import os

from .. import REPO
from ..canon import snap
from ..space import Const, Prod

ID = "C19"
LEVEL = "model_checking"
RULE = ("every function of htmltools.tags and htmltools.svg and every top-level shortcut (union of the "
        "frozen catalogue and what the modules define now) x 5 argument lists x _add_ws in {default, "
        "True, False} plus 5 invalid _add_ws values; oracle f(*a, **k) == Tag(name_of_f, *a, _add_ws="
        "default, **k) with default = name not in _INLINE_TAG_NAMES (read from scripts/generate_tags.py "
        "by AST). Non-trivial = one per (function, argument list). Exhaustive over the catalogue.")
ASSUMPTIONS = [
    "the project's inline/block classification is the _INLINE_TAG_NAMES literal in "
    "scripts/generate_tags.py (the script itself fetches URLs and is never executed)",
]

HERE = os.path.dirname(os.path.abspath(__file__))
ARGLISTS = ["none", "text", "dict+children", "kwargs", "mixed", "empty-dict", "attrs-object", "kw-order"]
WS = ["default", True, False]
BAD_WS = [None, 0, 1, "yes", ""]


def inline_names():
    src = open(os.path.join(REPO, "scripts", "generate_tags.py")).read()
    for node in ast.walk(ast.parse(src)):
        if isinstance(node, ast.Assign) and any(
                isinstance(t, ast.Name) and t.id == "_INLINE_TAG_NAMES" for t in node.targets):
            return set(ast.literal_eval(node.value))
    raise RuntimeError("_INLINE_TAG_NAMES not found")


def catalogue():
    import htmltools
    from htmltools import svg, tags
    frozen = json.load(open(os.path.join(HERE, "c19_catalogue.json")))

    def fns(mod):
        return [n for n, f in vars(mod).items()
                if callable(f) and getattr(f, "__module__", "") == mod.__name__ and not n.startswith("_")]
    out = []
    for modname, mod in (("tags", tags), ("svg", svg)):
        names = list(dict.fromkeys(frozen[modname] + fns(mod)))
        out += [[modname, n] for n in names]
    out += [["top", n] for n in frozen["top"]]
    return out


def args_for(kind):
    from htmltools import HTML, Tag
    if kind == "none":
        return (), {}
    if kind == "text":
        return ("t",), {}
    if kind == "dict+children":
        return ({"id": "i"}, "t", ["u", 3]), {}
    if kind == "kwargs":
        return (Tag("b", "c"), None), {"class_": "c", "data_x": True}
    if kind == "kw-order":
        return ("c",), {"class_": "c", "href": "/p", "id": "i", "src": "s.png", "title": "t", "type": "x", "name": "n",
                        "value": "v", "for_": "f", "style": "a:b;", "alt": "", "hidden": True}
    if kind == "empty-dict":
        return ({}, "x", {}), {}
    if kind == "attrs-object":
        return (Tag("i", id="q", class_="w").attrs, "x"), {}
    return ({"class": "a"}, HTML("<i>"), {"class": "b", "x_": 1}, [None, ("z",)]), {"class_": "k", "hidden": False}


_INL = {}


def fn(case):
    import htmltools
    from htmltools import Tag, svg, tags
    (modname, name), argkind, ws = case
    if "s" not in _INL:
        _INL["s"] = inline_names()
    viols = []
    mod = {"tags": tags, "svg": svg, "top": htmltools}[modname]
    f = getattr(mod, name, None)
    if f is None or not callable(f):
        return (True, None, [(f"missing:{modname}.{name}", f"{modname}.{name} no longer exists", {})])
    default = name not in _INL["s"]
    a, k = args_for(argkind)
    if ws == "default":
        got = f(*a, **k)
        exp_ws = default
    else:
        got = f(*a, _add_ws=ws, **k)
        exp_ws = ws
    a2, k2 = args_for(argkind)
    exp = Tag(name, *a2, _add_ws=exp_ws, **k2)
    if not isinstance(got, Tag):
        viols.append((f"type:{modname}.{name}", f"returned {type(got).__name__}", {}))
        return (True, None, viols)
    if got.name != name:
        viols.append((f"name:{modname}.{name}", f"{modname}.{name}() creates <{got.name}>", {}))
    if got.add_ws is not exp_ws:
        viols.append((f"add_ws:{modname}.{name}",
                      f"{modname}.{name}(_add_ws={ws}) has add_ws={got.add_ws}, expected {exp_ws}", {}))
    if snap(got) != snap(exp) or not (got == exp):
        viols.append((f"passthrough:{modname}.{name}", "children/attributes differ from the Tag constructor's",
                      {"observed": snap(got), "expected": snap(exp)}))
    if list(got.attrs.items()) != list(exp.attrs.items()):
        viols.append((f"attr-order:{modname}.{name}", "attribute order differs", {}))
    if modname == "top" and f is not getattr(tags, name, None):
        g = getattr(tags, name)(*args_for(argkind)[0], **args_for(argkind)[1])
        if snap(g) != snap(f(*args_for(argkind)[0], **args_for(argkind)[1])):
            viols.append((f"shortcut:{name}", "top-level shortcut differs from tags.<name>", {}))
    if argkind == "attrs-object":
        # the element must own its attribute map: mutating it never reaches the donor tag
        donor = Tag("i", id="q", class_="w")
        mine = f(donor.attrs, "x")
        mine.add_class("added")
        mine.attrs["id"] = "changed"
        if mine.attrs is donor.attrs or dict(donor.attrs) != {"id": "q", "class": "w"}:
            viols.append((f"shared-attrs:{modname}.{name}", "element shares its attribute map with the tag whose "
                          ".attrs was passed", {}))
    if argkind == "kwargs":
        # children are passed through untouched: the caller's child objects are not modified
        child = Tag("section", "c")
        s0 = snap(child)
        f(child, class_="k")
        if snap(child) != s0:
            viols.append((f"child-mutated:{modname}.{name}", "the function modified a child object passed to it",
                          {"before": s0, "after": snap(child)}))
    # each call creates its own element
    again = f(*args_for(argkind)[0], **args_for(argkind)[1])
    if again is got or again.children is got.children or again.attrs is got.attrs:
        viols.append((f"shared:{modname}.{name}", "two calls share an object", {}))
    if ws == "default" and argkind == "none":
        for bad in BAD_WS:
            try:
                f(_add_ws=bad)
                viols.append((f"bad-ws:{modname}.{name}", f"_add_ws={bad!r} accepted", {}))
            except TypeError:
                pass
    return (True, (name, argkind), viols, 3)


def plan(tier):
    cat = catalogue()
    return [dict(kind="space", name="catalogue", fn=fn,
                 space=Prod(Const(cat), Const(ARGLISTS), Const(WS)),
                 note=f"{len(cat)} functions x {len(ARGLISTS)} argument lists x _add_ws {{default,True,False}} (+5 invalid)")]
