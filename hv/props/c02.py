"""C02 - plain-text children are inert data.

E1: every Unicode scalar value, and every short string over the metacharacter alphabet,
as a text child in every emission context and for every way of adding a child.  Oracle:
the output is prefix + E + suffix (prefix/suffix taken from the same tree rendered with a
harmless placeholder) with valid_escape(E, s, {&,<,>}) (R1), and html_escape(s) == E.
"""
from __future__ import annotations

from ..ref.escape import TEXT_MUST, valid_escape
from ..space import Const, Prod, Seq, Space

ID = "C02"
LEVEL = "model_checking"
RULE = ("(a) every Unicode scalar value (1,112,064) as a one-character text child in each of "
        "the emission contexts; (b) every string of length <= 4 (quick) / <= 6 (thorough) over "
        "{& < > \" ' ; # a LF} in each context; (c) every way of adding a child x every string "
        "of length <= 3; (d) numbers. Non-trivial = probe contains at least one of & < >. "
        "Cases are distinct by construction.")
ASSUMPTIONS = [
    "R1 valid_escape (hv/ref/escape.py) is the statement: & < > as references that decode to "
    "them, every other character unchanged",
    "prefix/suffix of a context are obtained by rendering the same tree with a private-use "
    "placeholder instead of the probe (text never influences layout)",
]

SIGMA = ["&", "<", ">", '"', "'", ";", "#", "a", "\n"]
PH = "PH"


class CodePoints(Space):
    """All Unicode scalar values, as ints."""
    size = 0x110000 - 0x800

    def __getitem__(self, i):
        return i if i < 0xD800 else i + 0x800


def _contexts():
    from htmltools import Tag, TagList
    div = lambda *a: Tag("div", *a, _add_ws=True)      # noqa: E731
    span = lambda *a: Tag("span", *a, _add_ws=False)   # noqa: E731
    g = lambda x: x.get_html_string()                  # noqa: E731
    return {
        "only-block": lambda s: g(div(s)),
        "only-inline": lambda s: g(span(s)),
        "first-block": lambda s: g(div(s, span("y"), "z")),
        "mid-block": lambda s: g(div(span("y"), s, "z")),
        "last-block": lambda s: g(div("z", span("y"), s)),
        "first-inline": lambda s: g(span(s, span("y"), "z")),
        "mid-inline": lambda s: g(span(span("y"), s, "z")),
        "last-inline": lambda s: g(span("z", span("y"), s)),
        "top-first": lambda s: g(TagList(s, div("q"))),
        "top-after-block": lambda s: TagList(div("q"), s).get_html_string(1, "\r\n"),
        "after-block-sibling": lambda s: g(div(div("q"), s)),
        "nested-inline-in-block": lambda s: g(div(span(s, "t"), div())),
        "deep": lambda s: div(div(div(span("y"), s))).get_html_string(2),
        "inline-in-inline": lambda s: g(span(span(s))),
        "inline-in-inline-multi": lambda s: g(span(span(s, "t"), "!")),
        "inline-in-inline-in-block": lambda s: g(div(span(span("a", s)), "z")),
        "custom-eol": lambda s: div("q", span(span(s))).get_html_string(1, "\r\n"),
        # an ORDINARY element that sits inside <script>/<style> (a text/template script, an svg <style>): only text
        # placed directly in script/style is raw, the text of the nested element is text like any other
        "element-inside-script": lambda s: g(Tag("script", div(s), type="text/template")),
        "element-inside-script-multi": lambda s: g(Tag("script", "raw<", span("y"), div(s, "z"))),
        "element-deep-inside-style": lambda s: g(Tag("style", span(span(s)))),
    }


def _ways():
    """Ways of adding a child; each returns the rendered string."""
    from htmltools import Tag, TagList
    from ..spec import Tagif

    def ctor(s):
        return Tag("div", "a", s, Tag("span")).get_html_string()

    def nested_list(s):
        return Tag("div", "a", [[s], Tag("span")]).get_html_string()

    def nested_tuple(s):
        return Tag("div", "a", (s, (Tag("span"),))).get_html_string()

    def nested_taglist(s):
        return Tag("div", "a", TagList(s, Tag("span"))).get_html_string()

    def append(s):
        t = Tag("div", "a")
        t.append(s, Tag("span"))
        return t.get_html_string()

    def extend(s):
        t = Tag("div", "a")
        t.extend([s, Tag("span")])
        return t.get_html_string()

    def extend_str(s):
        t = Tag("div", "a", Tag("span"))
        t.extend(s)              # a str passed to extend is one child
        return t.get_html_string()

    def insert0(s):
        t = Tag("div", Tag("span"), "a")
        t.insert(0, s)
        return t.get_html_string()

    def insert_mid(s):
        t = Tag("div", "a", Tag("span"))
        t.insert(1, s)
        return t.get_html_string()

    def iadd(s):
        t = Tag("div", "a")
        t.children += [s, Tag("span")]
        return t.get_html_string()

    def add(s):
        t = Tag("div")
        t.children = TagList("a") + s + [Tag("span")]
        return t.get_html_string()

    def taglist_insert(s):
        t = TagList(Tag("span"), "a")
        t.insert(1, s)
        return t.get_html_string()

    def via_tagify_str(s):
        return Tag("div", "a", Tagif(["T", s]), Tag("span")).render()["html"]

    def via_tagify_list(s):
        return Tag("div", "a", Tagif(["L", [["T", s]]]), Tag("span")).render()["html"]

    def via_tagify_tag(s):
        return TagList(Tagif(["E", "div", True, [], [["T", s]]])).render()["html"]

    def via_document(s):
        from htmltools import HTMLDocument
        return HTMLDocument(Tag("p", s, "b", _add_ws=True)).render()["html"]

    def via_str(s):
        return str(Tag("div", s))

    def renamed_from_script(s):
        t = Tag("script", "a")
        t.name = "pre"
        t.append(s)
        return t.get_html_string()

    def renamed_copy_of_style(s):
        import copy
        t = copy.copy(Tag("style", s))
        t.name = "div"
        return t.get_html_string()

    def after_same_text_as_attribute(s):
        # history: the same string was escaped as an attribute value first
        Tag("div", title=s, class_=s).get_html_string()
        return Tag("div", "a", s, Tag("span")).get_html_string()

    def after_same_text_in_script(s):
        Tag("script", s, "x").get_html_string()
        return Tag("p", s).get_html_string()

    def rendered_twice(s):
        t = Tag("div", s, Tag("span"))
        t.get_html_string()
        return t.get_html_string()

    return {f.__name__: f for f in (ctor, nested_list, nested_tuple, nested_taglist, append,
                                    extend, extend_str, insert0, insert_mid, iadd, add,
                                    taglist_insert, via_tagify_str, via_tagify_list,
                                    via_tagify_tag, via_document, via_str, renamed_from_script,
                                    renamed_copy_of_style, after_same_text_as_attribute,
                                    after_same_text_in_script, rendered_twice)}


_CACHE = {}


CORE = ("only-block", "only-inline", "mid-block", "top-first")


def _frames(table_name, table=None):
    """placeholder prefix/suffix per context (computed once per process)."""
    key = table_name
    if key not in _CACHE:
        if not _CACHE:
            # the very first escaping done by this process is an ATTRIBUTE escape
            from htmltools import Tag
            Tag("p", title='x & "y"').get_html_string()
        fr = {}
        if table_name == "core":
            table = {k: v for k, v in _contexts().items() if k in CORE}
        elif table_name == "ctx":
            table = _contexts()
        elif table_name == "ways":
            table = _ways()
        for name, f in table.items():
            out = f(PH)
            assert out.count(PH) == 1, (name, out)
            pre, suf = out.split(PH)
            fr[name] = (f, pre, suf)
        _CACHE[key] = fr
    return _CACHE[key]


def check_probe(s: str, frames, viols, keyprefix="", arg=None):
    """s = the characters; arg = the object actually used as the child (default s)."""
    from htmltools import Tag, html_escape
    if arg is None:
        arg = s
    # history first: the very first time this process escapes s, it is as an ATTRIBUTE value
    # (a result cache keyed on the string alone would now hold the attribute-escaped form)
    if s != PH:
        Tag("i", title=arg).get_html_string()
    he = html_escape(arg)
    if arg is not s:
        he = he + ""
    why = valid_escape(he, s, TEXT_MUST)
    if why:
        viols.append((f"{keyprefix}html_escape", f"html_escape({s!r}) = {he!r}: {why}",
                      {"probe": s, "observed": he}))
    for name, (f, pre, suf) in frames.items():
        out = f(arg)
        if not (out.startswith(pre) and out.endswith(suf) and len(out) >= len(pre) + len(suf)):
            viols.append((f"{keyprefix}ctx={name}:frame",
                          f"text child {s!r} changed the surrounding markup in context {name}",
                          {"probe": s, "observed": out, "prefix": pre, "suffix": suf}))
            continue
        E = out[len(pre):len(out) - len(suf)]
        why = valid_escape(E, s, TEXT_MUST)
        if why:
            viols.append((f"{keyprefix}ctx={name}:escape",
                          f"text child {s!r} emitted as {E!r} in context {name}: {why}",
                          {"probe": s, "observed": out}))
        elif E != he:
            viols.append((f"{keyprefix}ctx={name}:differs-from-html_escape",
                          f"context {name} emits {E!r} but html_escape gives {he!r}",
                          {"probe": s}))


def fn_codepoint(cp):
    s = chr(cp)
    viols = []
    check_probe(s, _frames("ctx"), viols)
    return (s in TEXT_MUST, None if not viols else "V", viols)


def fn_codepoint_core(cp):
    s = chr(cp)
    viols = []
    check_probe(s, _frames("core"), viols)
    return (s in TEXT_MUST, None if not viols else "V", viols)


def fn_string(chars):
    s = "".join(chars)
    viols = []
    check_probe(s, _frames("ctx"), viols)
    return (any(c in TEXT_MUST for c in s), None, viols)


def fn_way(chars):
    s = "".join(chars)
    viols = []
    check_probe(s, _frames("ways"), viols, keyprefix="way:")
    return (any(c in TEXT_MUST for c in s), None, viols)


def lookalikes():
    """strings that look like character references (must never be left un-escaped)."""
    import html.entities
    out = []
    names = sorted({k.rstrip(";") for k in html.entities.html5})
    for n in names:
        out.append("&" + n + ";")
    for n in names[:400]:
        out.append("&" + n)
    for cp in (38, 60, 62, 34, 39, 10, 13, 65, 160, 0x1F600, 0, 0x110000):
        out += [f"&#{cp};", f"&#x{cp:X};", f"&#x{cp:x};", f"&#{cp}", f"&#0{cp};"]
    out += ["AT&amp;T", "&lt;b&gt;", "&amp;amp;", "&&amp;", "&amp;&", "&;", "&#;", "&#x;", "a&amp;lt;b",
            "&amp;#60;", "&#38;amp;", "<&lt;>", "&AMP;", "&Lt;", "&GT;", "&quot;", "&apos;"]
    return out


def fn_subclass(case):
    """children that are instances of str subclasses: rendered as their characters."""
    from .c03 import SUBCLASS_MAKERS
    kind, chars = case
    s = "".join(chars)
    viols = []
    arg = SUBCLASS_MAKERS[kind](s)
    check_probe(s, _frames("ctx"), viols, keyprefix=f"strsub={kind}:", arg=arg)
    ways = {k: v for k, v in _frames("ways").items() if k not in ("extend_str", "add", "via_tagify_str", "via_tagify_list", "via_tagify_tag")}
    check_probe(s, ways, viols, keyprefix=f"strsub={kind}:way:", arg=arg)
    return (True, None, viols)


def fn_lookalike(s):
    viols = []
    check_probe(s, _frames("core"), viols)
    check_probe(s, _frames("ways"), viols, keyprefix="way:")
    return (True, None, viols, len(CORE) + 1 + len(_frames("ways")))


def ordinary_tag_names():
    """every element of the catalogue except the two raw-text ones, plus a few extra names."""
    from htmltools import svg, tags
    names = []
    for mod in (tags, svg):
        for n, f in vars(mod).items():
            if callable(f) and getattr(f, "__module__", "") == mod.__name__ and not n.startswith("_"):
                if n not in ("script", "style") and n not in names:
                    names.append(n)
    return names + ["textarea-x", "my-el", "SCRIPTX", "xmp", "plaintext", "listing", "noembed", "noframes"]


TAG_PROBES = ["<&>", "</textarea><script>x</script>", "a & b", "&amp;", "x > y", "<!--"]


def fn_tagname(case):
    from htmltools import Tag, svg, tags
    name, probe = case
    viols = []
    f = getattr(tags, name, None) or getattr(svg, name, None)
    mk = (lambda *a: f(*a)) if f is not None else (lambda *a: Tag(name, *a))
    for how, build_ in (("single", lambda s: mk(s)), ("multi", lambda s: mk("k", s, Tag("i"))),
                        ("appended", lambda s: _app(mk(), s)), ("flipped-ws", lambda s: _flip(mk("k", s)))):
        ph = build_(PH).get_html_string()
        if ph.count(PH) != 1:
            continue
        pre, suf = ph.split(PH)
        out = build_(probe).get_html_string()
        E = out[len(pre):len(out) - len(suf)] if out.startswith(pre) and out.endswith(suf) else None
        why = "surrounding markup changed" if E is None else valid_escape(E, probe, TEXT_MUST)
        if why:
            viols.append((f"tag={name}:{how}", f"text child {probe!r} of <{name}> ({how}) emitted wrongly: {why}",
                          {"observed": out}))
    return (True, None, viols, 8)


def _app(t, s):
    t.append(s)
    return t


def _flip(t):
    t.add_ws = not t.add_ws
    return t


def fn_long(case):
    """history: a long string rendered as HTML() first, then as plain text (must still be escaped)."""
    from htmltools import HTML, Tag, TagList
    unit, n = case
    s = (unit * (n // len(unit) + 1))[:n]
    viols = []
    Tag("p", HTML(s)).get_html_string()
    Tag("span", "k", HTML(s), _add_ws=False).get_html_string()
    for name, f, pre, suf in (("only", lambda: Tag("div", s).get_html_string(), "<div>", "</div>"),
                              ("multi", lambda: TagList(Tag("span", "k", _add_ws=False), s).get_html_string(),
                               "<span>k</span>", ""),
                              ("appended", lambda: _app(Tag("span", _add_ws=False), s).get_html_string(), "<span>", "</span>")):
        out = f()
        E = out[len(pre):len(out) - len(suf)] if out.startswith(pre) and out.endswith(suf) else None
        why = "surrounding markup changed" if E is None else valid_escape(E, s, TEXT_MUST)
        if why:
            viols.append((f"long-after-html:{name}", f"{n}-character text rendered after the same string as HTML(): {why}",
                          {"observed": out[:200]}))
    return (True, None, viols, 5)


NUMBERS = [["N", 0], ["N", 7], ["N", -1], ["N", 2.5], ["NS", "1e21"], ["NS", "10**30"],
           ["NS", "nan"], ["NS", "inf"], ["NS", "True"], ["NS", "intenum"], ["NS", "floatsub"],
           ["NS", "-0.0"], ["NS", "intflag"]]


def fn_number(case):
    from ..spec import build, num_text
    n = build(case)
    txt = num_text(case)
    viols = []
    for table_name in ("ctx", "ways"):
        for name, (f, pre, suf) in _frames(table_name).items():
            if name in ("extend_str", "add", "after_same_text_as_attribute", "after_same_text_in_script",
                        "renamed_copy_of_style"):
                continue       # these use the probe as an iterable / + operand / attribute, not only a child
            if name.startswith("via_tagify"):
                continue       # tagify() must not return a bare number
            out = f(n)
            if out != pre + txt + suf:
                viols.append((f"number:{name}", f"number {n!r} not rendered as its str() text",
                              {"observed": out, "expected": pre + txt + suf}))
    return (True, txt, viols)


def plan(tier):
    k = 4 if tier == "quick" else 6
    nctx, nways = len(_contexts()), len(_ways())
    if tier == "quick":
        first = dict(kind="space", name="every-code-point-core", space=CodePoints(),
                     fn=fn_codepoint_core, execs=len(CORE) + 1,
                     note=f"all 1,112,064 Unicode scalar values x html_escape + contexts {CORE} "
                          "(single-child fast path, multi-child path, top-level list, inline parent)")
    else:
        first = dict(kind="space", name="every-code-point", space=CodePoints(), fn=fn_codepoint,
                     execs=nctx + 1,
                     note=f"all 1,112,064 Unicode scalar values x {nctx} contexts + html_escape")
    return [
        first,
        dict(kind="space", name="short-strings", space=Seq(Const(SIGMA), 0, k), fn=fn_string,
             execs=nctx + 1, note=f"all strings of length <= {k} over {SIGMA!r} x {nctx} contexts"),
        dict(kind="space", name="ways-of-adding", space=Seq(Const(SIGMA), 0, 3 if tier == "quick" else 4),
             fn=fn_way, execs=nways + 1,
             note=f"{nways} ways of adding a child x all strings of length <= 3/4"),
        dict(kind="space", name="every-ordinary-tag-name", fn=fn_tagname,
             space=Prod(Const(ordinary_tag_names()), Const(TAG_PROBES)),
             note="every catalogue element except script/style (+ 8 extra names) x 6 probes x single / multi / "
                  "appended / flipped-ws child"),
        dict(kind="space", name="long-strings-after-html", fn=fn_long,
             space=Prod(Const(["a&b<c>d ", "<i>&amp;</i>"]), Const([1, 31, 32, 63, 64, 65, 127, 128, 129, 255, 256, 257, 1000, 4096, 70000])),
             note="1..70000-character strings rendered as HTML() first, then as plain text"),
        dict(kind="space", name="str-subclass-children", fn=fn_subclass,
             space=Prod(Const(["loud", "tagged", "str-enum-mixin"]), Seq(Const(["r", "&", "<", "\n"]), 0, 2 if tier == "quick" else 3)),
             note="children that are instances of str subclasses (overridden __str__/__format__, plain subclass, "
                  "(str, Enum) member) in every context and way of adding"),
        dict(kind="space", name="reference-lookalikes", space=Const(lookalikes()), fn=fn_lookalike,
             note="every HTML5 named reference (with ';', 400 without), numeric references, double-escape "
                  "look-alikes x core contexts x ways of adding"),
        dict(kind="space", name="numbers", space=Const(NUMBERS), fn=fn_number,
             execs=nctx + nways, note="numeric children rendered as str(n)"),
    ]
