"""C01 - rendered markup parses back to the same element tree.

E1: (a) catalogue sweep over every tag function / void name / custom names x child shapes
x ws flag x attribute sets x (indent, eol); (b) shape strata.  Oracle: the strict tokenizer
R2 turns the output into a tree that must equal the tree derived from the spec.
"""
from __future__ import annotations

import html as _html

from ..alpha import CONFIGS_QUICK, CONFIGS_THOROUGH, only_elements
from ..ref.layout import VOID, RAW
from ..ref.tokens import TokenError, tokenize, to_tree
from ..space import Const, Prod, Seq, trees
from ..spec import E, T, build, num_text

ID = "C01"
LEVEL = "model_checking"
RULE = ("(a) every tags.* and svg.* function, Tag(v) for the 16 void names and 4 custom names x 6 "
        "child shapes x ws flag {default, flipped} x 3 attribute sets x (indent, eol); (b) every "
        "tree up to the stated depth/fan-out over {div, span, hr, br, my-el, div-with-3-attributes} "
        "x {text incl. metacharacters / surrounding spaces / empty, numbers}. Non-trivial = tree "
        "with >= 1 nested element and >= 1 attribute or text leaf. Distinct by construction.")
ASSUMPTIONS = [
    "R2 (hv/ref/tokens.py) is a strict XML-like tag tokenizer with raw-text script/style",
    "text runs are compared after html.unescape and stripping ASCII whitespace at both ends; "
    "eol values are whitespace strings so layout can never be mistaken for text",
]

ASCII_WS = " \t\n\r\f\v"
ATTRSETS = [
    [],
    [["id", "i"]],
    [["title", "<&>\"'"], ["data-x", "l1\r\nl2"], ["lang", "é中"], ["alt", "say \"hi\" 'x'"]],
]
VOID16 = sorted(VOID)
CUSTOM = ["my-el", "x1", "A", "BR"]
SHAPES = ["none", "text", "two-texts", "inline-child", "block-child", "mixed"]


def shape_kids(shape):
    if shape == "none":
        return []
    if shape == "text":
        return [T("a<b")]
    if shape == "two-texts":
        return [T("a"), T("&b ")]
    if shape == "inline-child":
        return [E("span", False, [T("i")])]
    if shape == "block-child":
        return [E("div", True, [T("b")])]
    return [T("t"), E("span", False, []), E("div", True, [T("x"), ["N", 7]]), T(" u")]


# ------------------------------------------------------------- expected tree
def expected_tree(spec):
    """-> [name, attrs[(k, v)], children, form]; children: elements or merged text runs."""
    _, name, ws, attrs, kids = spec
    vis = [k for k in kids if k[0] not in ("M", "D")]
    raw = name in RAW
    if not vis and name in VOID:
        return [name, [(k, attr_text(v)) for k, v in attrs], [], "void"]
    out = []
    run = None
    for k in vis:
        if k[0] == "E":
            if run is not None:
                out.append(run)
                run = None
            out.append(expected_tree(k))
        else:
            txt = k[1] if k[0] in ("T", "TS") else num_text(k)
            run = txt if run is None else run + txt
    if run is not None:
        out.append(run)
    out = [c for c in out if not isinstance(c, str) or c.strip(ASCII_WS) != ""]
    out = [c.strip(ASCII_WS) if isinstance(c, str) else c for c in out]
    return [name, [(k, attr_text(v)) for k, v in attrs], out, "pair"]


def attr_text(v):
    if v is True:
        return ""
    return str(v)


def observed_tree(node, raw_parent=False):
    name, attrs, kids, form = node
    raw = name.lower() in RAW
    out = []
    for c in kids:
        if isinstance(c, str):
            t = c if raw else _html.unescape(c)
            t = t.strip(ASCII_WS)
            if t != "":
                out.append(t)
        else:
            out.append(observed_tree(c))
    return [name, [(k, _html.unescape(v)) for k, v in attrs], out, form]


def check_parse(spec, out, viols, cfg):
    try:
        nodes = to_tree(tokenize(out))
    except TokenError as e:
        viols.append(("untokenizable", f"output does not tokenize as balanced HTML ({cfg}): {e}",
                      {"observed": out}))
        return
    nodes = [n for n in nodes if not (isinstance(n, str) and n.strip(ASCII_WS) == "")]
    if len(nodes) != 1 or isinstance(nodes[0], str):
        viols.append(("not-one-root", f"output is not a single element ({cfg})", {"observed": out}))
        return
    got = observed_tree(nodes[0])
    exp = expected_tree(spec)
    if got != exp:
        viols.append(("tree-mismatch", f"parsed tree differs from the tag tree ({cfg})",
                      {"observed_tree": got, "expected_tree": exp, "observed": out}))


def nontrivial(spec):
    def nested(s):
        return any(c[0] == "E" for c in s[4])

    def leafy(s):
        return bool(s[3]) or any(c[0] != "E" or leafy(c) for c in s[4])
    return nested(spec) and leafy(spec)


def make_fn(configs):
    def fn(spec):
        viols = []
        x = build(spec)
        first = None
        for (indent, eol) in configs:
            out = x.get_html_string(indent, eol)
            if first is None:
                first = out
            check_parse(spec, out, viols, (indent, eol))
            if viols:
                break
        if not viols:
            d = x.get_html_string()
            s, r = str(x), x.render()["html"]
            if not (d == s == r):
                viols.append(("views-differ", "get_html_string / str / render()['html'] differ",
                              {"get_html_string": d, "str": s, "render": r}))
        return (nontrivial(spec), first, viols, len(configs) + 3)
    return fn


# -------------------------------------------------------------- catalogue (a)
def catalogue():
    from htmltools import svg, tags
    cat = []
    for modname, mod in (("tags", tags), ("svg", svg)):
        for n, f in vars(mod).items():
            if callable(f) and getattr(f, "__module__", "") == mod.__name__ and not n.startswith("_"):
                cat.append([modname, n])
    for v in VOID16:
        cat.append(["Tag", v])
    for c in CUSTOM:
        cat.append(["Tag", c])
    return cat


def make_fn_catalogue(configs):
    def fn(case):
        from htmltools import Tag, svg, tags
        (modname, fname), shape, flip, attrs = case
        kids = shape_kids(shape)
        if modname == "Tag":
            probe = Tag(fname)
        else:
            probe = getattr(tags if modname == "tags" else svg, fname)()
        name, ws = probe.name, probe.add_ws
        if name in RAW and any(k[0] == "E" for k in kids):
            # raw-text elements cannot hold elements in HTML: text-only children instead
            kids = [T("x<y"), T(" z"), ["N", 1]]
        if flip:
            ws = not ws
        spec = E(name, ws, kids, attrs)
        # build through the real function so the function itself is exercised
        kw = {}
        args = [build(k) for k in kids]
        if modname == "Tag":
            x = Tag(fname, *args, _add_ws=ws)
        else:
            x = getattr(tags if modname == "tags" else svg, fname)(*args, _add_ws=ws)
        for k, v in attrs:
            x.attrs.update({k: v})
        viols = []
        first = None
        for (indent, eol) in configs:
            out = x.get_html_string(indent, eol)
            first = first or out
            check_parse(spec, out, viols, (indent, eol))
            if viols:
                break
        return (nontrivial(spec), first, viols, len(configs) + 1)
    return fn


# ------------------------------------------------------------ mutation histories
MUTS = ["attr-pop", "attr-clear", "attr-del", "attr-set", "attr-update", "add_class", "remove_last_class",
        "append-text", "insert-tag", "del-child", "clear-children", "rename", "flip-ws", "child-attr-pop"]
HIST_TREES = [
    E("div", True, [T("a"), E("span", False, [T("i")], [["class", "k"], ["title", "t"]])], [["id", "i"], ["class", "c"]]),
    E("span", False, [], [["class", "only"]]),
    E("p", True, [T("x<y")], [["data-x", "1"], ["title", "q\"r"], ["lang", "en"]]),
    E("img", False, [], [["src", "a.png"], ["alt", "A"]]),
    E("div", True, [E("div", True, [E("b", False, [T("deep")], [["id", "d"]])], [["class", "m n"]])], [["class", "o"]]),
]


def mutate_both(x, spec, m):
    """apply mutation m to the real tag x and to its spec; returns the new spec (or None if n/a)."""
    import copy as _c
    from htmltools import Tag
    k, name, ws, attrs, kids = _c.deepcopy(spec)
    if m == "attr-pop":
        if not attrs:
            return None
        x.attrs.pop(attrs[-1][0])
        attrs = attrs[:-1]
    elif m == "attr-clear":
        x.attrs.clear()
        attrs = []
    elif m == "attr-del":
        if not attrs:
            return None
        del x.attrs[attrs[0][0]]
        attrs = attrs[1:]
    elif m == "attr-set":
        x.attrs["data-new"] = "n&w"
        if any(a[0] == "data-new" for a in attrs):
            attrs = [[a[0], "n&w"] if a[0] == "data-new" else a for a in attrs]    # replaced in place
        else:
            attrs = attrs + [["data-new", "n&w"]]
    elif m == "attr-update":
        if not attrs:
            return None
        x.attrs.update({attrs[0][0]: "replaced"})
        attrs = [[attrs[0][0], "replaced"]] + attrs[1:]
    elif m == "add_class":
        x.add_class("added")
        cur = next((a for a in attrs if a[0] == "class"), None)
        if cur:
            cur[1] = cur[1] + " added"
        else:
            attrs = attrs + [["class", "added"]]
    elif m == "remove_last_class":
        cur = next((a for a in attrs if a[0] == "class"), None)
        if not cur or " " in cur[1]:
            return None
        x.remove_class(cur[1])
        attrs = [a for a in attrs if a[0] != "class"]
    elif m == "append-text":
        x.append("app&")
        kids = kids + [T("app&")]
    elif m == "insert-tag":
        x.insert(0, Tag("i", "ins", _add_ws=False))
        kids = [E("i", False, [T("ins")])] + kids
    elif m == "del-child":
        if not kids:
            return None
        del x.children[0]
        kids = kids[1:]
    elif m == "clear-children":
        x.children.clear()
        kids = []
    elif m == "rename":
        x.name = "section"
        name = "section"
    elif m == "flip-ws":
        x.add_ws = not x.add_ws
        ws = not ws
    elif m == "child-attr-pop":
        idx = next((i for i, c in enumerate(kids) if c[0] == "E" and c[3]), None)
        if idx is None:
            return None
        x.children[idx].attrs.pop(kids[idx][3][-1][0])
        kids[idx][3] = kids[idx][3][:-1]
    return [k, name, ws, attrs, kids]


def fn_history(case):
    """render, mutate through the public API, render the SAME object again: it must parse to the
    mutated tree (exposes anything cached on the objects by an earlier render)."""
    ti, seq = case
    spec = HIST_TREES[ti]
    x = build(spec)
    viols = []
    n = 0
    check_parse(spec, x.get_html_string(), viols, "initial")
    x.get_html_string(2, "\r\n")
    for m in seq:
        new = mutate_both(x, spec, m)
        if new is None:
            continue
        spec = new
        n += 1
        for cfg in ((0, "\n"), (1, "\r\n")):
            check_parse(spec, x.get_html_string(*cfg), viols, f"after {seq} {cfg}")
        if viols:
            viols = [(f"history:{m}:" + v[0], v[1], v[2]) for v in viols]
            break
    return (n >= 1, None, viols, 2 * n + 2)


def plan(tier):
    configs = CONFIGS_QUICK if tier == "quick" else CONFIGS_THOROUGH
    fn = make_fn(configs)
    cat = catalogue()
    out = [dict(kind="space", name="catalogue", fn=make_fn_catalogue(configs),
                space=Prod(Const(cat), Const(SHAPES), Const([False, True]), Const(ATTRSETS)),
                note=f"{len(cat)} element constructors x {len(SHAPES)} child shapes x ws flag x "
                     f"{len(ATTRSETS)} attribute sets x {len(configs)} (indent, eol)")]
    B = lambda k: E("div", True, k)                    # noqa: E731
    I_ = lambda k: E("span", False, k)                 # noqa: E731
    Vb = lambda k: E("hr", True, k)                    # noqa: E731
    Vi = lambda k: E("br", False, k)                   # noqa: E731
    C = lambda k: E("my-el", True, k)                  # noqa: E731
    BA = lambda k: E("div", True, k, ATTRSETS[2])      # noqa: E731
    IA = lambda k: E("a", False, k, [["href", "p q/é?a=1&b=2#f \"x\""], ["hidden", True]])   # noqa: E731
    IM = lambda k: E("img", False, k, [["src", "a b.png"], ["alt", "x"]])                    # noqa: E731
    L_full = [T("a"), T("<&>\"'"), ["N", 7], ["N", 2.5], T(" s "), T(""), T("l1\nl2 \n l3"),
              T("&lt;b&gt; &amp;amp; &#65; &nbsp;"), ["TS", "sub<text"]]
    L_red = [T("a"), T("<&>\"'"), ["N", 7]]
    t1 = trees(Const(L_full), [B, I_, Vb, Vi, C, BA, IA, IM], 1, 3 if tier == "quick" else 4)
    out.append(dict(kind="space", name="wide-shallow", space=only_elements(t1), fn=fn,
                    note="depth<=1, fan-out<=3 (quick) / 4, full alphabet incl. attribute-bearing kinds"))
    if tier == "quick":
        t2 = trees(Const(L_red), [B, I_, Vb, Vi], 2, 2)
        out.append(dict(kind="space", name="square-d2w2-reduced", space=only_elements(t2), fn=fn,
                        note="depth<=2 fan-out<=2, reduced alphabet"))
        t3 = trees(Const([T("a")]), [B, I_], 3, [2, 2, 1])
        out.append(dict(kind="space", name="deep-d3", space=only_elements(t3), fn=fn,
                        note="depth<=3 fan-out (2,2,1) over {div,span,text}"))
    else:
        t2 = trees(Const(L_full), [B, I_, Vb, Vi, C], 2, 2)
        out.append(dict(kind="space", name="square-d2w2-full", space=only_elements(t2), fn=fn,
                        note="depth<=2 fan-out<=2, full alphabet"))
        t3 = trees(Const([T("a")]), [B, I_], 3, 2)
        out.append(dict(kind="space", name="deep-d3", space=only_elements(t3), fn=fn,
                        note="depth<=3 fan-out 2 over {div,span,text}"))
        t4 = trees(Const([T("a")]), [B, I_], 4, [2, 2, 1, 1])
        out.append(dict(kind="space", name="deep-d4", space=only_elements(t4), fn=fn,
                        note="depth<=4 fan-out (2,2,1,1)"))
    out.append(dict(kind="space", name="mutation-histories", fn=fn_history,
                    space=Prod(Const(list(range(len(HIST_TREES)))), Seq(Const(MUTS), 1, 2 if tier == "quick" else 3)),
                    note=f"{len(HIST_TREES)} attribute-bearing trees: render, then every sequence of <= 2 (quick) / 3 of "
                         f"{len(MUTS)} public-API mutations, re-rendering the same object after each"))
    # raw-text elements with text-only children free of '</'
    S = [E(n, ws, kids) for n in ("script", "style") for ws in (True, False)
         for kids in ([], [T("a<b && c>d")], [T("x"), T(" y "), ["N", 3]], [T("\n p \n")])]
    out.append(dict(kind="space", name="raw-text", space=Const(S), fn=fn,
                    note="script/style with text-only children"))
    return out
