"""C07 - metadata nodes leave no trace in the markup.

E1: for every tree without metadata, every subset of insertion positions (all gaps of all
child lists), MetadataNode() and HTMLDependency; differential oracle: output with
insertions == output without; render()['dependencies'] lists exactly the inserted
dependencies.
"""
from __future__ import annotations

import itertools

from ..alpha import only_elements
from ..space import Const, Seq, trees
from ..spec import B, I, Vb, Vi, E, T, H, R, build

ID = "C07"
LEVEL = "model_checking"
RULE = ("every metadata-free tree of the stated strata (block-inside-inline included) x every "
        "subset of <= K gaps of its child lists (incl. empty child lists of void/empty tags, first, "
        "last, between siblings) x fill pattern {one MetadataNode, one HTMLDependency, dependency+"
        "a user metadata node holding a lock in a row}; rendered via Tag/TagList.get_html_string (two (indent,eol)) and "
        "render(). Non-trivial = >= 1 node inserted into a list with >= 1 visible sibling. "
        "Distinct by construction (tree index x gap subset x fill).")
ASSUMPTIONS = ["differential oracle: the metadata-free tree's own output is the expected output"]

LEAVES = [T("a"), H("<i>h</i>"), R("<u>r</u>"), E("script", True, [T("p"), T("q")])]
KINDS = [B, I, Vb, Vi]
CFGS = [(0, "\n"), (2, "\r\n")]


def gaps(spec, path=()):
    """every (path-to-element, position) gap of every child list, document order."""
    out = []
    if spec[0] != "E":
        return out
    kids = spec[4]
    for pos in range(len(kids) + 1):
        out.append((path, pos))
    for i, c in enumerate(kids):
        out.extend(gaps(c, path + (i,)))
    return out


def insert_at(spec, chosen, fill, counter):
    """return a new spec with `fill` nodes inserted at the chosen gaps of this element."""
    def rec(s, path):
        if s[0] != "E":
            return s
        kids = s[4]
        new = []
        for pos in range(len(kids) + 1):
            if (path, pos) in chosen:
                for f in fill:
                    if f == "D":
                        counter[0] += 1
                        new.append(["D", f"dep{counter[0]}", "1.0", {"script": {"src": "x.js"}, "head": "<b>hd</b>"}])
                    elif f == "ML":
                        new.append(["ML"])
                    else:
                        new.append(["M"])
            if pos < len(kids):
                new.append(rec(kids[pos], path + (pos,)))
        return ["E", s[1], s[2], s[3], new]
    return rec(spec, ())


FILLS = [["M"], ["D"], ["D", "ML"]]


def make_fn(maxk, toplist=False):
    def fn(case):
        viols = []
        root = ["E", "#list", True, [], case] if toplist else case
        g = gaps(root)
        if toplist:
            g = [x for x in g]   # top-level list gaps are the root's own gaps
        base_outs = {}
        for cfg in CFGS:
            base_outs[cfg] = render(root, cfg, toplist)
        base_render = render_full(root, toplist)
        n = 0
        nontriv = False
        for k in range(1, min(maxk, len(g)) + 1):
            for chosen in itertools.combinations(g, k):
                cs = set(chosen)
                for fill in FILLS:
                    counter = [0]
                    spec2 = insert_at(root, cs, fill, counter)
                    n += 1
                    for cfg in CFGS:
                        out = render(spec2, cfg, toplist)
                        if out != base_outs[cfg]:
                            viols.append(("metadata-visible",
                                          f"inserting {fill} at {sorted(cs)} changed the markup for {cfg}",
                                          {"with": out, "without": base_outs[cfg], "tree": spec2}))
                            return (True, None, viols)
                    r = render_full(spec2, toplist)
                    if r["html"] != base_render["html"]:
                        viols.append(("metadata-visible:render", "render()['html'] changed",
                                      {"with": r["html"], "without": base_render["html"], "tree": spec2}))
                        return (True, None, viols)
                    names = [d.name for d in r["dependencies"]]
                    exp = [f"dep{i}" for i in range(1, counter[0] + 1)]
                    if names != exp:
                        viols.append(("dependency-list", "render()['dependencies'] is not the inserted dependencies",
                                      {"observed": names, "expected": exp, "tree": spec2}))
                        return (True, None, viols)
                    nontriv = True
        return (nontriv and any(len(root_kids(root, p)) > 0 for p, _ in g), n, viols,
                (n + 1) * (len(CFGS) + 1))
    return fn


def root_kids(root, path):
    s = root
    for i in path:
        s = s[4][i]
    return s[4]


def render(spec, cfg, toplist):
    from htmltools import TagList
    if toplist:
        return TagList(*[build(c) for c in spec[4]]).get_html_string(*cfg)
    return build(spec).get_html_string(*cfg)


def render_full(spec, toplist):
    from htmltools import TagList
    if toplist:
        return TagList(*[build(c) for c in spec[4]]).render()
    return build(spec).render()


# ----------------------------------------------------- ways of getting the node in
def insert_later(root_spec, path, pos, how):
    """build the metadata-free tree, then put ONE node into child list `path` at `pos` by `how`."""
    from htmltools import HTMLDependency, MetadataNode, Tag, TagList
    from ..spec import Tagif
    x = build(root_spec)
    t = x
    for i in path:
        t = t.children[i]
    dep = HTMLDependency("late", "1.0", script={"src": "l.js"})
    if how == "insert":
        t.insert(pos, dep)
    elif how == "insert-list":
        t.insert(pos, [MetadataNode(), [dep]])
    elif how == "slice-assign":
        t.children[pos:pos] = [dep]
    elif how == "append":
        t.append(MetadataNode(), dep)            # always at the end
    elif how == "extend":
        t.children.extend([dep])
    elif how == "iadd":
        t.children += [dep, MetadataNode()]
    elif how == "with-block":
        import sys
        saved = sys.displayhook
        sys.displayhook = lambda v: None
        try:
            with t:
                sys.displayhook(dep)                 # appended at the end of t
                sys.displayhook(MetadataNode())
        finally:
            sys.displayhook = saved
    elif how == "expansion-dep":
        t.children[pos:pos] = [Tagif(["D", "late", "1.0", {"script": {"src": "l.js"}}])]
    elif how == "expansion-list":
        t.children[pos:pos] = [Tagif(["L", [["M"], ["D", "late", "1.0", {}], ["M"]]])]
    elif how == "expansion-empty":
        t.children[pos:pos] = [Tagif(["L", []])]
    return x


HOWS = ["insert", "insert-list", "slice-assign", "append", "extend", "iadd", "with-block", "expansion-dep",
        "expansion-list", "expansion-empty"]


def fn_later(case):
    """every single gap x every way of adding the node after construction (or through an expansion)."""
    viols = []
    root = case
    base = build(root).render()
    base_str = build(root).get_html_string()
    n = 0
    for (path, pos) in gaps(root):
        for how in HOWS:
            x = insert_later(root, path, pos, how)
            n += 1
            r = x.render()
            if r["html"] != base["html"]:
                viols.append((f"metadata-visible:{how}", f"a metadata node added by {how} at {list(path)}:{pos} changed render()['html']",
                              {"with": r["html"], "without": base["html"]}))
                return (True, None, viols, n)
            if how != "expansion-empty" and [d.name for d in r["dependencies"]] != ["late"]:
                viols.append((f"dependency-list:{how}", "the added dependency is not reported", {}))
                return (True, None, viols, n)
            if not how.startswith("expansion"):
                s = x.get_html_string()
                if s != base_str:
                    viols.append((f"metadata-visible:{how}:get_html_string", f"node added by {how} changed the markup",
                                  {"with": s, "without": base_str}))
                    return (True, None, viols, n)
    return (True, n, viols, 2 * n + 2)


DOC_TREES = [
    E("html", True, [E("head", True, [E("meta", True, [], [["charset", "utf-8"]]), E("title", True, [T("t")])]),
                     E("body", True, [T("b"), E("p", True, [T("x")])])]),
    E("html", True, [E("head", True, []), E("body", True, [E("br", False, [])])]),
    E("html", True, [E("body", True, [])]),
    E("body", True, [E("span", False, [T("i")]), T("t")]),
    E("div", True, [T("only")]),
    E("head", True, [E("title", True, [T("t")])]),
]


def fn_document(root):
    """plain MetadataNode objects never change a rendered DOCUMENT either."""
    from htmltools import HTMLDocument
    viols = []
    base = HTMLDocument(build(root)).render()["html"]
    n = 0
    g = gaps(root)
    for k in (1, 2):
        for chosen in itertools.combinations(g, k):
            spec2 = insert_at(root, set(chosen), ["M"], [0])
            n += 1
            out = HTMLDocument(build(spec2)).render()["html"]
            if out != base:
                viols.append(("metadata-visible:document", f"MetadataNode at {sorted(chosen)} changed the rendered document",
                              {"with": out, "without": base}))
                return (True, None, viols, n)
    return (True, n, viols, n + 1)


def plan(tier):
    out = []
    if tier == "quick":
        t1 = trees(Const(LEAVES), KINDS, 1, 3)
        out.append(dict(kind="space", name="wide-d1w3", space=only_elements(t1), fn=make_fn(2), execs=60,
                        note="depth<=1 fan-out<=3 full alphabet, all gap subsets of size<=2"))
        t2 = trees(Const([T("a"), R("<u>r</u>")]), [B, I], 2, 2)
        out.append(dict(kind="space", name="square-d2w2-reduced", space=only_elements(t2), fn=make_fn(1), execs=20,
                        note="depth<=2 fan-out<=2 over {div,span}x{text,_repr_html_}, every single gap"))
        t2v = trees(Const([T("a")]), [B, I, Vi, Vb], 2, [2, 1])
        out.append(dict(kind="space", name="d2-with-void", space=only_elements(t2v), fn=make_fn(1), execs=20,
                        note="depth<=2 fan-out (2,1) over {div,span,br,hr}x{text}, every single gap"))
        t3 = trees(Const([T("a")]), [B, I], 2, 2)
        out.append(dict(kind="space", name="square-d2w2-pairs", space=only_elements(t3), fn=make_fn(2), execs=60,
                        note="depth<=2 fan-out<=2 over {div,span}x{text}, gap subsets of size<=2"))
        t0 = trees(Const(LEAVES[:3]), KINDS, 1, 1)
        out.append(dict(kind="space", name="toplist", space=Seq(t0, 0, 2), fn=make_fn(2, True), execs=30,
                        note="top-level lists of <=2 items (depth<=1, fan-out<=1), gap subsets of size<=2"))
    else:
        t1 = trees(Const(LEAVES), KINDS, 1, 4)
        out.append(dict(kind="space", name="wide-d1w4", space=only_elements(t1), fn=make_fn(2), execs=100,
                        note="depth<=1 fan-out<=4 full alphabet, gap subsets of size<=2"))
        t1b = trees(Const(LEAVES), KINDS, 1, 3)
        out.append(dict(kind="space", name="wide-d1w3-all-subsets", space=only_elements(t1b), fn=make_fn(99), execs=100,
                        note="depth<=1 fan-out<=3 full alphabet, ALL gap subsets"))
        t2 = trees(Const([T("a"), R("<u>r</u>")]), [B, I, Vi], 2, 2)
        out.append(dict(kind="space", name="square-d2w2-reduced", space=only_elements(t2), fn=make_fn(2), execs=300,
                        note="depth<=2 fan-out<=2 over {div,span,br}x{text,_repr_html_}, gap subsets of size<=2"))
        t2f = trees(Const(LEAVES), KINDS, 2, 2)
        out.append(dict(kind="space", name="square-d2w2-full", space=only_elements(t2f), fn=make_fn(1), execs=30,
                        note="depth<=2 fan-out<=2 full alphabet, every single gap"))
        t0 = trees(Const(LEAVES[:3]), KINDS, 1, 1)
        out.append(dict(kind="space", name="toplist", space=Seq(t0, 0, 3), fn=make_fn(1, True), execs=60,
                        note="top-level lists of <=3 items, every single gap"))
        out.append(dict(kind="space", name="toplist-pairs", space=Seq(t0, 0, 2), fn=make_fn(3, True), execs=60,
                        note="top-level lists of <=2 items, gap subsets of size<=3"))
    tl = trees(Const(LEAVES), KINDS, 1, 2 if tier == "quick" else 3)
    out.append(dict(kind="space", name="added-after-construction", space=only_elements(tl), fn=fn_later,
                    note=f"depth<=1 fan-out<=2 (quick) / 3: every single gap x {len(HOWS)} ways of adding the node later "
                         "(insert, slice assignment, append, extend, +=, tagify() expansion to a dependency / list / nothing)"))
    out.append(dict(kind="space", name="documents", space=Const(DOC_TREES), fn=fn_document,
                    note="HTMLDocument over html/head/body shaped trees: every 1- and 2-subset of gaps filled with MetadataNode"))
    return out
