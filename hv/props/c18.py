"""C18 - output is deterministic across processes and independent of history.

E4: the battery is rendered in fresh interpreters for every PYTHONHASHSEED of a stated
range and, inside each, in every permutation of the battery items; head_content: all
ordered pairs over 12 payloads.                                   (level: exploration)
"""
from __future__ import annotations

import json
import math
import os
import subprocess
import time
from concurrent.futures import ThreadPoolExecutor

from .. import REPO, VERIF

ID = "C18"
LEVEL = "exploration"
RULE = ("fresh interpreter per PYTHONHASHSEED in 0..31 (quick) / 0..95 (thorough); inside each, the "
        "14-item battery (escaping of quotes/newlines/metacharacters, same dependency name with two "
        "spellings of one version in separate documents, a second text document + css()/number conversions of "
        "equal-but-different values, documents with 7+ dependency names, "
        "duplicate head_content, HTMLTextDocument extraction of 5 serialisations with repeats, JSX "
        "component, attribute merges, resolution + serialisation), started with item (seed mod 14) as "
        "the very first library action of the process, then rendered in every permutation of its first 5 (quick: 120) / 6 (thorough: "
        "720) items; all ordered pairs of 21 head_content payloads. Non-trivial = (seed, order) "
        "pairs other than the first. 2^32 seeds cannot be enumerated: the seed range is the bound.")
ASSUMPTIONS = [
    "a set- or hash()-based regression differs between two seeds with overwhelming probability; the "
    "battery uses >= 6 names so a set-order change shows in essentially every seed pair",
]
TECHNIQUE = ("exhaustive enumeration of (hash seed in a stated range) x (every order of the battery) in "
             "fresh interpreter processes; digests compared across all of them")


# process environments: every fourth interpreter runs in the C locale without UTF-8 mode, every fourth (offset 2)
# with assertions stripped (-O); the output must not depend on either
def child_setup(seed):
    env = dict(os.environ, PYTHONHASHSEED=str(seed), PYTHONDONTWRITEBYTECODE="1", HV_REPO=REPO)
    flags = []
    if seed % 4 == 1:
        env.update(LC_ALL="C", LANG="C", PYTHONUTF8="0", PYTHONCOERCECLOCALE="0", PYTHONIOENCODING="utf-8")
    elif seed % 4 == 3:
        flags = ["-O"]
    return env, flags


def run_child(seed, nperm):
    env, flags = child_setup(seed)
    p = subprocess.run(["/venv/bin/python", *flags, "-m", "hv.c18_child", str(nperm), str(seed)], cwd=VERIF, env=env,
                       capture_output=True, text=True, timeout=1800)
    if p.returncode != 0:
        return seed, None, p.stderr[-1500:]
    return seed, json.loads(p.stdout.strip().splitlines()[-1]), None


def make_run(tier):
    seeds = list(range(32)) if tier == "quick" else list(range(96))
    nperm = 5 if tier == "quick" else 6

    def run(ctx):
        t = time.time()
        with ThreadPoolExecutor(max_workers=os.cpu_count() or 4) as ex:
            results = list(ex.map(lambda s: run_child(s, nperm), seeds))
        viols = []
        ref = None
        nexec = 0
        digests_seen = set()
        for seed, out, err in results:
            if out is None:
                viols.append(("child-crash", f"battery crashed under PYTHONHASHSEED={seed}: {err}", {"seed": seed}))
                continue
            nexec += out["executions"]
            for od in out["order_dependent"]:
                viols.append((f"order-dependent:{od['item']}",
                              f"rendering {od['item']} depends on what was rendered before (seed {seed})",
                              {"seed": seed, "order": od["order"]}))
            for pb in out["hc"]["problems"]:
                viols.append(("history-dependent" if "differs from a fresh construction" in pb else "head_content",
                              pb, {"seed": seed}))
            if out["mode"] != "invisible":
                viols.append(("render-mode-leak", "html_dependency_render_mode changed", {"seed": seed}))
            sig = (out["digests"], out["hc"]["names"])
            digests_seen.add(json.dumps(sig, sort_keys=True))
            if ref is None:
                ref = (seed, sig)
            elif sig != ref[1]:
                diff = [k for k in sig[0] if sig[0][k] != ref[1][0].get(k)]
                diff += ["head_content name of " + k for k in sig[1] if sig[1][k] != ref[1][1].get(k)]
                viols.append((f"seed-dependent:{diff[0] if diff else '?'}",
                              f"output of {diff} differs between PYTHONHASHSEED={ref[0]} and {seed}",
                              {"seeds": [ref[0], seed], "items": diff}))
        from ..runner import Violation
        case = {"seeds": seeds, "permuted_items": nperm}
        for key, msg, detail in viols:
            ctx.violations.append(Violation("seeds-x-orders", dict(case, **{k: v for k, v in detail.items() if k == "seed"}),
                                            key, msg, detail))
        ctx.nviol_total += len(viols)
        nperms = math.factorial(nperm)
        ctx.samples.append({"stratum": "seeds-x-orders", "seed": seeds[-1], "order": "every permutation of the first "
                            f"{nperm} battery items", "items": list(ref[1][0]) if ref else []})
        ctx.strata.append({"stratum": "seeds-x-orders", "engine": "E4 per-hash-seed subprocesses x permutations",
                           "cases": len(seeds) * nperms, "space_size": len(seeds) * nperms, "complete": True,
                           "nontrivial": len(seeds) * nperms - 1, "distinct_outcomes": len(digests_seen),
                           "impl_executions": nexec, "violations": len(viols),
                           "wall_s": round(time.time() - t, 2),
                           "bound": f"PYTHONHASHSEED in {seeds[0]}..{seeds[-1]}, {nperms} orders each, "
                                    f"441 ordered head_content payload pairs per process"})
        ctx.log(f"stratum seeds-x-orders: {len(seeds)} interpreters x {nperms} orders, "
                f"{nexec} battery executions, distinct digest sets={len(digests_seen)}, violations={len(viols)}")
    return run


def replay(case):
    """re-runs the quick battery (all seeds / orders): the case is the whole enumeration."""
    from ..runner import Ctx
    c = Ctx(ID, "quick", LEVEL, RULE)
    c.quiet = True
    make_run("quick")(c)
    return [(v.key, v.msg, v.detail) for v in c.violations]


def plan(tier):
    return [dict(kind="custom", name="seeds-x-orders", run=make_run(tier), replay=replay)]
