"""C06 - block layout follows the documented line and indentation rules.

Exhaustive enumeration (E1) of validly nested trees (no block inside inline) x (indent,
eol) configurations; oracle = byte equality with the reference layout renderer R3.
"""
from __future__ import annotations

from ..alpha import CONFIGS_QUICK, CONFIGS_THOROUGH, only_elements, valid_trees
from ..ref.layout import ref_render_list, ref_render_tag
from ..space import Const, Seq
from ..spec import deref, B, I, Vb, Vi, E, T, H, R, M, build

ID = "C06"
LEVEL = "model_checking"
RULE = ("every validly nested tree (no ws-on tag inside a ws-off tag) over the node alphabet "
        "up to the stated depth/fan-out, each rendered under every (indent, eol) "
        "configuration through Tag.get_html_string and TagList.get_html_string; cases are "
        "distinct by construction (unranked from an indexable space); non-trivial = the "
        "expected output for (0, '\\n') has >= 3 lines")
ASSUMPTIONS = [
    "reference layout R3 (hv/ref/layout.py) is the C06 statement transcribed",
    "alphabet has one symbol per layout-relevant node kind: block/inline/void-block/"
    "void-inline tag, script/style, text (with and without newline), number, HTML(), "
    "_repr_html_ object, metadata node",
]

IL_FULL = [T("a"), T("x\ny"), ["N", 7], H("<i>h</i>"), R("<u>r</u>"), M, T("e\n"), T(""), ["TS", "sub"],
           E("style", False, [T("p"), T("q")])]
S_LEAVES = [E("script", True, [T("a<b")]), E("script", True, [T("p"), T("q")]),
            E("style", True, [])]
IL_RED = [T("a"), R("<u>r</u>"), M]
IL_TOP = [T("a"), R("<u>r</u>"), M, T(""), H("")]
BA = lambda k: E("div", True, k, [["class", "c d"], ["title", "t\"q"]])      # noqa: E731
IA = lambda k: E("span", False, k, [["id", "i"]])                            # noqa: E731
EXTRA_EOL = [(0, "|"), (1, "|")]


def make_fn(configs, toplist=False):
    def fn(case):
        viols = []
        if toplist:
            obj = None
        nontriv = False
        outcome = []
        # ONE object per case, rendered under every configuration in turn (so that anything a
        # render leaves behind on the object shows in the next one); plus a fresh object at the end
        if toplist:
            from htmltools import TagList
            obj = TagList(*[build(c) for c in case])
        else:
            obj = build(case)
        for (indent, eol) in list(configs) + [configs[0]]:
            got = obj.get_html_string(indent, eol)
            if toplist:
                exp = ref_render_list(case, indent, eol)
            else:
                exp = ref_render_tag(deref(case), indent, eol)
            if eol == "\n" and indent == 0:
                nontriv = exp.count("\n") >= 2
                outcome.append(exp)
            if toplist and not viols:
                # add_ws=False is how an inline parent renders its child list: a leading run of
                # non-block items is not indented (nothing else changes)
                from ..ref.layout import is_block, ref_inline, vis
                v_items = vis(case)
                if v_items and not any(is_block(k) for k in v_items):
                    got2 = obj.get_html_string(indent, eol, add_ws=False)
                    exp2 = "".join(ref_inline(k, None) for k in v_items)
                    if got2 != exp2:
                        viols.append(("layout-mismatch:add_ws=False",
                                      f"TagList.get_html_string(add_ws=False) of inline items adds whitespace for indent={indent} eol={eol!r}",
                                      {"observed": got2, "expected": exp2}))
                        break
            if got != exp:
                viols.append(("layout-mismatch",
                              f"layout differs from the documented rule for indent={indent} eol={eol!r}",
                              {"indent": indent, "eol": eol, "observed": got, "expected": exp}))
                break
        return (nontriv, "".join(outcome), viols)
    return fn


def catalogue_cases():
    from htmltools import svg, tags
    out = []
    for mod in (tags, svg):
        for n, f in vars(mod).items():
            if callable(f) and getattr(f, "__module__", "") == mod.__name__ and not n.startswith("_"):
                ws = f().add_ws
                for kids in ([], [T("x")], [T("x"), T("y")]):
                    el = E(n, ws, kids)
                    code = E("code", False, [T("c")])
                    out.append(B([el, T("tail")]))
                    out.append(B([T("lead"), el, code]))
                    out.append(I([code, el, code]) if not ws else B([code, el, code]))
                    out.append(B([el, el]))
    return out


def chain(depth, inner):
    """div nested `depth` deep around the `inner` children list."""
    node = E("div", True, inner)
    for _ in range(depth - 1):
        node = E("div", True, [node])
    return node


def deep_cases(max_depth):
    inners = [[T("a"), I([T("b")]), B([T("c")])], [R("<u>r</u>"), B([]), T("x\ny")], [B([T("p"), T("q")])], [M, T("t"), M]]
    out = []
    for d in range(1, max_depth + 1):
        for inner in inners:
            out.append(chain(d, inner))
    return out


def same_object_cases(nmax):
    """child lists in which ONE tag object occurs more than once (at a line start and inside an inline run)."""
    import itertools
    items = {"I": I([T("i")]), "I2": E("em", False, [T("e"), E("b", False, [T("bb")])]), "B": B([T("b")]), "T": T("t"),
             "Bk": B([I([T("k")]), T("u")])}
    out = []
    for n in range(2, nmax + 1):
        for seq in itertools.product(["I", "I2", "B", "Bk", "T", "R0", "R1"], repeat=n):
            ok = any(x.startswith("R") for x in seq)
            kids = []
            for pos, x in enumerate(seq):
                if x.startswith("R"):
                    k = int(x[1])
                    if k >= pos or seq[k] in ("T",) or seq[k].startswith("R"):
                        ok = False
                        break
                    kids.append(["REF", k])
                else:
                    kids.append(items[x])
            if ok:
                out.append(B(kids))
                out.append(B([B(kids), T("after")]))
                if not any(x in ("B", "Bk") for x in seq):
                    out.append(I(kids))
    return out


def plan(tier):
    return plan0(tier) + plan_more(tier)


def fn_bare(case):
    """get_html_string() with no arguments = (indent 0, eol LF), for tags and for top-level lists; str() the same
    when nothing needs expanding."""
    from htmltools import TagList
    viols = []
    obj = build(case)
    exp = ref_render_tag(deref(case), 0, "\n")
    for how, got in (("get_html_string()", obj.get_html_string()), ("get_html_string(0)", obj.get_html_string(0)),
                     ("get_html_string(eol=LF)", obj.get_html_string(eol="\n")), ("str()", str(obj))):
        if got != exp:
            viols.append(("layout-mismatch:defaults", f"{how} is not the layout for indent 0 and eol LF", {"observed": got, "expected": exp}))
    kids = case[4]
    tl = TagList(*[build(c) for c in kids])
    expl = ref_render_list(kids, 0, "\n")
    for how, got in (("TagList.get_html_string()", tl.get_html_string()), ("TagList.get_html_string(0)", tl.get_html_string(0)),
                     ("str(TagList)", str(tl))):
        if got != expl:
            viols.append(("layout-mismatch:defaults:list", f"{how} is not the layout for indent 0 and eol LF", {"observed": got, "expected": expl}))
    return (exp.count("\n") >= 2, None, viols, 7)


def plan_more(tier):
    configs = (CONFIGS_QUICK if tier == "quick" else CONFIGS_THOROUGH) + EXTRA_EOL
    fn_tag = make_fn(configs)
    fn_list = make_fn(configs, toplist=True)
    wsl = [T(" "), T("\t"), T("\u3000"), T("\n"), T("a"), M, H(" ")]
    _, blkw = valid_trees(wsl, wsl, [I], [B], 1, 3)
    _, blkw1 = valid_trees(wsl[:4] + [T("a")], wsl[:4] + [T("a")], [I], [B], 1, 1)
    so = same_object_cases(3 if tier == "quick" else 4)
    _, blkd = valid_trees(IL_RED, IL_RED + S_LEAVES[:1], [I, Vi], [B, Vb], 1, 3)
    return [
        dict(kind="space", name="optional-arguments-left-out", space=only_elements(blkd), fn=fn_bare, execs=7,
             note="get_html_string() / get_html_string(0) / eol only / str() on tags and top-level lists: indent 0, eol LF"),
        dict(kind="space", name="whitespace-only-text-children", space=only_elements(blkw), fn=fn_tag,
             note="text children consisting only of a blank, a tab, U+3000 or a line feed are text like any other: first "
                  "child, after a block sibling, inside runs (depth 1, fan-out <= 3)"),
        dict(kind="space", name="whitespace-only-text-toplist", space=Seq(blkw1, 1, 3), fn=fn_list,
             note="the same in top-level lists of 1..3 items"),
        dict(kind="space", name="same-tag-object-twice-among-siblings", space=Const(so), fn=fn_tag,
             note=f"{len(so)} child lists in which one Tag object occurs twice (once starting a layout line, once inside an "
                  "inline run, or under different parents' indentation), rendered directly with get_html_string()"),
    ]


def plan0(tier):
    configs = (CONFIGS_QUICK if tier == "quick" else CONFIGS_THOROUGH) + EXTRA_EOL
    fn_tag = make_fn(configs)
    fn_list = make_fn(configs, toplist=True)
    out = []
    # wide-shallow: every sibling pattern of up to 4 children under a block / inline parent
    _, blk = valid_trees(IL_FULL, IL_FULL + S_LEAVES, [I, Vi], [B, Vb], 1, 3 if tier == "quick" else 4)
    out.append(dict(kind="space", name="wide-shallow", space=only_elements(blk), fn=fn_tag,
                    execs=len(configs), note="depth<=1 fan-out<=3 (quick) / 4, full alphabet"))
    _, blka = valid_trees(IL_RED, IL_RED + S_LEAVES[:1], [I, IA], [B, BA], 2 if tier != "quick" else 1, 2 if tier != "quick" else 3)
    out.append(dict(kind="space", name="attribute-bearing", space=only_elements(blka), fn=fn_tag,
                    execs=len(configs), note="tags with attributes (div with 2, span with 1), reduced leaves"))
    # top-level lists of up to 3 (quick) / 4 items, items of depth <= 1 (fan-out 2)
    _, blk1 = valid_trees(IL_TOP, IL_TOP + S_LEAVES[:1], [I, Vi], [B, Vb], 1, 1)
    out.append(dict(kind="space", name="toplist", fn=fn_list, execs=len(configs),
                    space=Seq(blk1, 0, 3 if tier == "quick" else 4),
                    note="top-level TagList of <=3 (quick) / <=4 (thorough) items, items depth<=1 fan-out<=1, reduced alphabet"))
    if tier == "quick":
        _, blk2 = valid_trees(IL_RED, IL_RED + S_LEAVES[:1], [I, Vi], [B, Vb], 2, 2)
        out.append(dict(kind="space", name="square-d2w2-reduced", space=only_elements(blk2),
                        fn=fn_tag, execs=len(configs), note="depth<=2 fan-out<=2 reduced alphabet"))
        _, blk3 = valid_trees([T("a")], [T("a")], [I], [B], 3, [2, 2, 1])
        out.append(dict(kind="space", name="deep-d3", space=only_elements(blk3), fn=fn_tag,
                        execs=len(configs), note="depth<=3 fan-out (2,2,1) over {div,span,text}"))
    else:
        _, blk2 = valid_trees(IL_FULL, IL_FULL + S_LEAVES, [I, Vi], [B, Vb], 2, 2)
        out.append(dict(kind="space", name="square-d2w2-full", space=only_elements(blk2),
                        fn=fn_tag, execs=len(configs), note="depth<=2 fan-out<=2 full alphabet"))
        _, blk3 = valid_trees([T("a"), M], [T("a"), M], [I], [B], 3, [2, 2, 2])
        out.append(dict(kind="space", name="deep-d3", space=only_elements(blk3), fn=fn_tag,
                        execs=len(configs), note="depth<=3 fan-out 2 over {div,span,text,metadata}"))
        _, blk4 = valid_trees([T("a")], [T("a")], [I], [B], 4, [2, 2, 1, 1])
        out.append(dict(kind="space", name="deep-d4", space=only_elements(blk4), fn=fn_tag,
                        execs=len(configs), note="depth<=4 fan-out (2,2,1,1) over {div,span,text}"))
    big = [(k, "\n") for k in (5, 9, 10, 11, 12, 13, 16, 31, 32, 33, 64)]
    out.append(dict(kind="space", name="deep-chains", space=Const(deep_cases(20 if tier == "quick" else 40)),
                    fn=make_fn(configs + big), execs=len(configs) + len(big),
                    note="linear chains of 1..20 (quick) / 1..40 nested blocks around 4 inner sibling lists, "
                         "also under indent = 5..64"))
    _, blk0 = valid_trees(IL_RED, IL_RED + S_LEAVES[:1], [I, Vi], [B, Vb], 1, 2)
    out.append(dict(kind="space", name="large-indent", space=only_elements(blk0), fn=make_fn(big),
                    execs=len(big), note="depth<=1 fan-out<=2 trees under indent in {5..64}"))
    cat = catalogue_cases()
    out.append(dict(kind="space", name="catalogue-siblings", space=Const(cat), fn=make_fn(configs[:3]), execs=3,
                    note="every tags.* / svg.* element with its own default whitespace flag (0/1/2 text children) "
                         "in 4 sibling contexts"))
    return out
