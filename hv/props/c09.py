"""C09 - tagifiable objects render as their expansion, spliced in place.

E1 over sibling sequences of plain items and tagifiable kinds x wrappers.  The expected tree
is built directly from plain nodes by the harness's own expansion table (never by calling
tagify); render() / HTMLDocument.render() of the real tree must equal those of the expected
tree; get_html_string() on a tree that still holds an un-expanded object must raise.
"""
from __future__ import annotations

from ..space import Const, Prod, Seq
from ..spec import B, I, T, H, build

ID = "C09"
LEVEL = "model_checking"
RULE = ("every sibling sequence of length <= 3 (quick) / <= 4 (thorough) over 4 plain items and 11 "
        "tagifiable kinds (-> block tag with dependency, inline tag, TagList of length 0/1/3, str, "
        "HTML, dependency, nested tagifiables inside a TagList / inside a tag, tagifiable+_repr_html_) "
        "x 5 wrappers (top-level list, block parent, inline parent, nested, user's own <html> root). Non-trivial = sequence "
        "with >= 1 expansion of length != 1. Distinct by construction.")
ASSUMPTIONS = [
    "a tagifiable object returns a fully tagified expansion (protocol docstring); the harness's "
    "objects do so",
    "dependencies are compared by (name, version, script)",
]


def dep(name, ver="1.0"):
    return ["D", name, ver, {"script": {"src": name + ".js"}}]


PLAIN = [T("a&"), B([T("b")]), I([]), dep("pd")]
XK = [
    ["X", B([T("xb"), dep("xd1")])],
    ["X", I([T("xi")])],
    ["X", ["L", []]],
    ["X", ["L", [T("one")]]],
    ["X", ["L", [T("l1"), I([T("l2")]), T("l3")]]],
    ["X", T("s<&")],
    ["X", H("<em>h</em>")],
    ["X", dep("xd2", "2.0")],
    ["X", ["L", [["X", ["L", [T("n1"), T("n2")]]], T("n3"), ["X", I([T("n4")])], ["X", ["L", []]]]]],
    ["X", B([["X", T("in-tag")], ["X", ["L", [dep("xd1", "1.5"), I([])]]], T("tail")])],
    ["XR", B([T("xr")]), "<REPR/>"],
    ["XS", B([T("stored"), dep("xd3", "3.0")], [["class", "st"]])],
    ["XS", ["L", [T("sl1"), I([T("sl2")])]]],
    ["X", T("")],
    ["X", H("")],
    ["XT", B([T("from-str-subclass")]), "raw text of the str subclass"],
    ["XD", ["L", [I([T("from-dep-subclass")]), dep("xd4", "4.0")]]],
]
ITEMS = PLAIN + XK
WRAPPERS = ["top", "block", "inline", "nested", "html-root", "displayed", "html-root-stored-head", "void-parent",
            "raw-text-parent"]


def expand(spec):
    """own expansion table: spec -> list of plain specs replacing it."""
    k = spec[0]
    if k in ("X", "XR", "XS", "XT", "XD"):
        res = spec[1]
        if res[0] == "L":
            out = []
            for c in res[1]:
                out.extend(expand(c))
            return out
        return expand(res)
    if k == "E":
        kids = []
        for c in spec[4]:
            kids.extend(expand(c))
        return [["E", spec[1], spec[2], spec[3], kids]]
    return [spec]


def wrap(items, wrapper):
    if wrapper == "top":
        return ["L", items]
    if wrapper == "block":
        return B(items)
    if wrapper == "inline":
        return I(items)
    if wrapper == "html-root":
        # the document's sole content is the user's own <html>: hoisting must see the expansions
        return ["E", "html", True, [], [["E", "head", True, [], []], ["E", "body", True, [], items]]]
    if wrapper == "void-parent":
        return ["E", "br", False, [], items]          # <br> with children keeps its end tag
    if wrapper == "raw-text-parent":
        return B([["E", "style", True, [], items], T("after")])
    if wrapper == "html-root-stored-head":
        # the <head> itself comes from a tagifiable object that hands out the same stored tag every time
        return ["E", "html", True, [], [["XS", ["E", "head", True, [], [["E", "title", True, [], [T("t")]]]]],
                                        ["E", "body", True, [], items]]]
    return B([I(items), T("tail"), B([])])


def has_unexpanded(spec, plain_only=True):
    k = spec[0]
    if k in ("X", "XS"):
        return True
    if k == "E":
        return any(has_unexpanded(c) for c in spec[4])
    if k == "L":
        return any(has_unexpanded(c) for c in spec[1])
    return False


def depkey(d):
    return (d.name, str(d.version), repr(d.script))


def build_displayed(items):
    """children added by displaying them inside a `with tag:` block."""
    import sys
    from htmltools import Tag
    t = Tag("div")
    saved = sys.displayhook
    sys.displayhook = lambda v: None
    try:
        with t:
            for it in items:
                sys.displayhook(build(it))
    finally:
        sys.displayhook = saved
    return t


def fn(case):
    import htmltools
    from htmltools import HTMLDocument
    items, wrapper = case
    if wrapper == "displayed":
        viols = []
        exp_items = []
        for it in items:
            exp_items.extend(expand(it))
        real, exp = build_displayed(items), build(B(exp_items))
        r, e = real.render(), exp.render()
        if r["html"] != e["html"] or [depkey(d) for d in r["dependencies"]] != [depkey(d) for d in e["dependencies"]]:
            viols.append(("displayed:render", "children displayed inside a with-block do not render as their expansion",
                          {"observed": r["html"], "expected": e["html"]}))
        return (any(len(expand(it)) != 1 for it in items), e["html"], viols, 2)
    real_spec = wrap(items, wrapper)
    exp_items = []
    for it in items:
        exp_items.extend(expand(it))
    exp_spec = wrap(exp_items, wrapper)
    viols = []
    real, exp = build(real_spec), build(exp_spec)
    r, e = real.render(), exp.render()
    if r["html"] != e["html"]:
        viols.append(("render:html", "render() differs from rendering the expansion in place",
                      {"observed": r["html"], "expected": e["html"]}))
    if [depkey(d) for d in r["dependencies"]] != [depkey(d) for d in e["dependencies"]]:
        viols.append(("render:dependencies", "render() reports different dependencies than the expansion",
                      {"observed": [depkey(d) for d in r["dependencies"]],
                       "expected": [depkey(d) for d in e["dependencies"]]}))
    real2, exp2 = build(real_spec), build(exp_spec)
    dr, de = HTMLDocument(real2).render(), HTMLDocument(exp2).render()
    if dr["html"] != de["html"] or [depkey(d) for d in dr["dependencies"]] != [depkey(d) for d in de["dependencies"]]:
        viols.append(("document:render", "HTMLDocument.render() differs from the expansion's",
                      {"observed": dr["html"], "expected": de["html"]}))
    # rendering the same object again gives the same (stored expansions must not be written into)
    again = real.render()
    if again["html"] != r["html"] or [depkey(d) for d in again["dependencies"]] != [depkey(d) for d in r["dependencies"]]:
        viols.append(("render:second-time", "rendering the same tree a second time differs from the first",
                      {"first": r["html"], "second": again["html"]}))
    dr2 = HTMLDocument(real2).render()
    if dr2["html"] != dr["html"]:
        viols.append(("document:second-time", "HTMLDocument.render() of the same object differs the second time",
                      {"first": dr["html"], "second": dr2["html"]}))
    # JSON dependency render mode: str() must serialise the dependencies of the expansions too
    if not wrapper.startswith("html-root"):
        assert htmltools.html_dependency_render_mode == "invisible"
        htmltools.html_dependency_render_mode = "json"
        try:
            sj, ej = str(build(real_spec)), str(build(exp_spec))
        finally:
            htmltools.html_dependency_render_mode = "invisible"
        if sj != ej:
            viols.append(("json-mode:str", "str() in JSON dependency mode differs from the expansion's",
                          {"observed": sj[-400:], "expected": ej[-400:]}))
    # tagify() itself: result holds no tagifiable-only object and equals the expected tree
    t = build(real_spec).tagify()
    try:
        s = t.get_html_string()
        if s != e["html"]:
            viols.append(("tagify:html", "tagify() result renders differently", {"observed": s, "expected": e["html"]}))
    except RuntimeError as ex:
        viols.append(("tagify:incomplete", f"tagify() result still holds an un-expanded object: {ex}", {}))
    # markup from an un-expanded tree must raise
    real3 = build(real_spec)
    try:
        s = real3.get_html_string()
        raised = False
    except RuntimeError:
        raised = True
    js = __import__("json").dumps(real_spec)
    has_xd = '"XD"' in js or '"XT"' in js
    # (an un-expanded object that is itself a metadata node is skipped like any metadata node, and one
    # that is itself a str is text: the statement exempts only "_repr_html_" dual objects and does not
    # say what asking for markup must do with these two-protocol objects: the raise clause is not
    # asserted for them; their render()/HTMLDocument.render() expansion is)
    if has_unexpanded(real_spec) and not raised:
        viols.append(("unexpanded:no-error", "get_html_string() emitted markup for a tree holding an "
                      "un-expanded tagifiable object", {"observed": s}))
    if not has_unexpanded(real_spec) and raised and not has_xd:
        viols.append(("unexpanded:spurious-error", "get_html_string() raised for a fully plain tree", {}))
    nontriv = any(len(expand(it)) != 1 for it in items)
    return (nontriv, e["html"], viols, 6)


def plan(tier):
    n = 3 if tier == "quick" else 4
    return [dict(kind="space", name="sibling-sequences", fn=fn,
                 space=Prod(Seq(Const(ITEMS), 0, n), Const(WRAPPERS)),
                 note=f"sequences of <= {n} items over {len(PLAIN)} plain + {len(XK)} tagifiable kinds x {len(WRAPPERS)} wrappers")]
