"""C17 - Tag context manager restores the display hook and collects children in order.

E2 over structured programs (trees of real `with tag:` statements, interpreted recursively)
+ E3 faults (raise / invalid displayed value / re-entry at every position).  Reference: the
display-hook stack model R10, evaluated in lock-step by the interpreter itself.
"""
from __future__ import annotations

import sys

from ..space import Alt, Const, Map, Prod, Seq

ID = "C17"
LEVEL = "model_checking"
RULE = ("every program = tree of with-blocks with bodies of bounded length per nesting level over events "
        "{display str / list / tag / None / Ellipsis / _repr_html_ object / invalid set / invalid dict, "
        "raise, re-enter the innermost active tag, re-enter the outermost active tag, nested fresh "
        "block, nested fresh block inside try/except}; plus top-level sequences with sequential re-use; plus every "
        "kind of displayed value incl. the falsy and empty ones (0, 0.0, '', [], (), TagList(), HTML(''), {}, set(), b''). "
        "Every raise / invalid value / re-entry position is a fault point, so all single faults and, "
        "through try/except blocks, multiple faults are covered. Non-trivial = program with >= 2 events "
        "of which >= 1 changes a tag or faults. Distinct by construction.")
ASSUMPTIONS = [
    "'displaying a value' is calling sys.displayhook(value), as the interpreter does for an "
    "expression statement",
    "a tag whose block has exited is not active: it can be used for another block (the statement only makes "
    "entering a tag whose block is STILL ACTIVE an error)",
]

ATOMS_FULL = [["disp", "str"], ["disp", "list"], ["disp", "tag"], ["disp", "none"], ["disp", "ellipsis"],
              ["disp", "repr"], ["disp", "set"], ["disp", "dict"], ["raise"], ["reenter", "self"],
              ["reenter", "outer"], ["disp", "xr"], ["disp", "dep"], ["inspect-active"], ["rebind-children"],
              ["render-ok"], ["render-fail"]]
ATOMS_RED = [["disp", "str"], ["disp", "set"], ["raise"], ["reenter", "outer"], ["disp", "repr"],
             ["inspect-active"], ["rebind-children"]]


class Boom(Exception):
    pass


class Viol(Exception):
    def __init__(self, key, msg, detail=None):
        self.v = (key, msg, detail or {})


class Run:
    def __init__(self):
        self.rec = []            # what the outermost (recording) hook received
        self.exp_rec = []
        self.exp_children = {}   # id(tag) -> list of expected children descriptors
        self.tags = {}           # id(tag) -> tag
        self.viols = []
        self.expected_fault = None
        self.n_events = 0
        self.n_effects = 0
        self.reused = set()
        self.tag_source = "fresh"
        self.hijacked_at = None      # nesting depth of the block inside which sys.displayhook was replaced by foreign code

    def new_tag(self):
        from htmltools import Tag
        t = Tag("div", id=f"t{len(self.tags)}")
        src = self.tag_source
        if src != "fresh":
            # the block's tag was obtained from another tag: by copying, pickling, expanding, or it is a
            # tag that has been rendered / copied / compared before
            import copy as _copy
            import pickle as _pickle
            if src == "copy":
                t = _copy.copy(t)
            elif src == "deepcopy":
                t = _copy.deepcopy(t)
            elif src == "pickle":
                t = _pickle.loads(_pickle.dumps(t))
            elif src == "tagify":
                t = t.tagify()
            elif src == "child-of-deepcopy":
                t = _copy.deepcopy(Tag("section", t)).children[0]
            elif src == "used-before":
                str(t), t.render(), _copy.copy(t), t == Tag("div"), t.tagify()
            elif src == "structurally-equal":
                t = Tag("div", class_="row")      # every block's tag is == every other (distinct objects)
            else:
                raise ValueError(src)
        self.tags[id(t)] = t
        self.exp_children[id(t)] = []
        return t


VALUE_KINDS = ["str", "list", "tag", "none", "ellipsis", "repr", "set", "dict", "xr", "dep", "zero", "fzero", "num",
               "float", "estr", "elist", "etuple", "etaglist", "ehtml", "html", "edict", "eset", "efrozenset",
               "ebytes", "nested-empty"]
_SCALAR_TEXT = {"zero": "0", "fzero": "0.0", "num": "7", "float": "1.5", "estr": ""}


def _empty_taglist():
    from htmltools import TagList
    return TagList()


def _html(x):
    from htmltools import HTML
    return HTML(x)


def make_value(kind):
    from htmltools import HTMLDependency, Tag
    from ..spec import Repr, TagifRepr
    return {"str": "s<", "list": ["l", 1, None, ("m",)], "tag": Tag("span", "x"), "none": None,
            "ellipsis": ..., "repr": Repr("<u>r</u>"), "set": {1}, "dict": {"a": 1},
            "xr": TagifRepr(["E", "b", False, [], [["T", "exp"]]], "<REPR/>"),
            "dep": HTMLDependency("shown", "1.0", script={"src": "s.js"}),
            # falsy / empty values: "nothing to show" is None and Ellipsis only; everything else goes through the child rules
            "zero": 0, "fzero": 0.0, "num": 7, "float": 1.5, "estr": "", "elist": [], "etuple": (),
            "etaglist": _empty_taglist(), "ehtml": _html(""), "html": _html("<i>&"), "edict": {}, "eset": set(),
            "efrozenset": frozenset(), "ebytes": b"", "nested-empty": [[], (None,), [()]]}[kind]


def model_children_for(value, kind):
    """descriptors the displayed value contributes under the normal child rules."""
    if kind in ("none", "ellipsis"):
        return []
    if kind == "str":
        return [("str", "s<")]
    if kind == "list":
        return [("str", "l"), ("str", "1"), ("str", "m")]
    if kind in ("tag", "xr", "dep"):
        return [("obj", id(value))]      # tags, tagifiable objects and metadata nodes are kept as they are
    if kind == "repr":
        return [("HTML", "<u>r</u>")]
    if kind in _SCALAR_TEXT:
        return [("str", _SCALAR_TEXT[kind])]      # numbers as their str() text, strings kept whole (also the empty one)
    if kind in ("elist", "etuple", "etaglist", "nested-empty"):
        return []                                  # empty lists splice to nothing
    if kind == "ehtml":
        return [("HTML", "")]
    if kind == "html":
        return [("HTML", "<i>&")]
    return None   # invalid -> TypeError


def describe_child(c):
    from htmltools import HTML
    if isinstance(c, HTML):
        return ("HTML", str(c))
    if isinstance(c, str):
        return ("str", c)
    return ("obj", id(c))


def run_body(body, stack, R: Run):
    for ev in body:
        R.n_events += 1
        k = ev[0]
        if k == "disp":
            v = make_value(ev[1])
            contrib = model_children_for(v, ev[1])
            if stack and R.hijacked_at == len(stack):
                sys.displayhook(v)          # goes to the foreign hook: nothing is appended, nothing raises
            elif stack:
                if contrib is None:
                    R.expected_fault = "TypeError"
                    R.n_effects += 1
                    sys.displayhook(v)
                    # reaching here means the invalid value was accepted
                    raise Viol("invalid-value-accepted", f"displaying a {ev[1]} inside a block did not raise TypeError")
                R.exp_children[id(stack[-1])].extend(contrib)
                if contrib:
                    R.n_effects += 1
                sys.displayhook(v)
            else:
                R.exp_rec.append(("val", repr(v)))
                sys.displayhook(v)
        elif k == "rebind-children":
            # the block's tag gets a new child-list object (same content) through its public attribute:
            # values displayed afterwards still belong to the tag
            if stack:
                from htmltools import TagList
                t = stack[-1]
                t.children = TagList(*t.children)        # new list object, same nodes
        elif k == "inspect-active":
            # read-only operations on the tag whose block is active must not disturb the hook chain
            if stack:
                import copy as _copy
                before = sys.displayhook
                t = stack[-1]
                str(t)
                _copy.copy(t)
                t.tagify()
                t.render()
                if sys.displayhook is not before:
                    raise Viol("inspect:hook-changed", "rendering / copying the active tag changed sys.displayhook")
        elif k in ("render-ok", "render-fail", "doc-render-fail"):
            # an unrelated tree is rendered while the block is active (as a custom tagify() or a logging call
            # would do); in the failing variants an object in that tree raises from tagify()
            from htmltools import HTMLDocument, Tag, TagList
            from ..spec import Boom as TagifyBoom, Tagif
            before = sys.displayhook
            kids_before = len(stack[-1].children) if stack else None
            try:
                if k == "render-ok":
                    TagList("a", Tag("p", Tagif(["E", "b", False, [], [["T", "x"]]]))).render()
                    str(Tag("div", Tagif(["L", [["T", "y"]]])))
                elif k == "render-fail":
                    Tag("div", "a", Tag("p", TagifyBoom())).render()
                else:
                    HTMLDocument(Tag("p", TagifyBoom())).render()
            except RuntimeError:
                pass
            if sys.displayhook is not before:
                raise Viol(f"{k}:hook-changed", "rendering another tree inside a block left sys.displayhook changed")
            if stack and len(stack[-1].children) != kids_before:
                raise Viol(f"{k}:children-changed", "rendering another tree inside a block added children to the block's tag")
        elif k == "replace-hook":
            # foreign code inside the block takes over sys.displayhook and never puts it back: what is displayed
            # afterwards in this block goes to the foreign hook; the block's exit still restores the hook that was
            # installed when the block was entered
            if stack and R.hijacked_at is None:
                sys.displayhook = lambda v: None
                R.hijacked_at = len(stack)
                R.n_effects += 1
        elif k == "raise":
            R.expected_fault = "Boom"
            R.n_effects += 1
            raise Boom()
        elif k == "reenter":
            if not stack:
                continue
            t = stack[-1] if ev[1] == "self" else stack[0]
            before = sys.displayhook
            R.n_effects += 1
            try:
                with t:
                    pass
                ok = False
            except RuntimeError:
                ok = True
            if sys.displayhook is not before:
                raise Viol("reenter:hook-changed", "re-entering an active tag changed sys.displayhook")
            if not ok:
                raise Viol("reenter:no-error", "re-entering an active tag did not raise")
        elif k in ("block", "tryblock"):
            t = R.new_tag()
            if k == "block":
                run_block(t, ev[1], stack, R)
            else:
                try:
                    run_block(t, ev[1], stack, R)
                except Viol:
                    raise
                except Exception as e:
                    if type(e).__name__ != R.expected_fault:
                        raise Viol("wrong-exception", f"{type(e).__name__} escaped a block, expected {R.expected_fault}")
        elif k == "reuse":
            # sequential re-use of an exited tag at top level: its block is not active any more, so it can be
            # entered again; what is displayed inside goes to the tag, and on exit the tag is handed to the
            # enclosing hook once more (once per block)
            exited = [t for t in R.tags.values() if all(t is not s for s in stack)]
            if not exited:
                continue
            t = exited[0]
            before = sys.displayhook
            R.n_effects += 1
            try:
                with t:
                    sys.displayhook("again")
            except RuntimeError as e:
                raise Viol("reuse:raises", f"entering a tag whose block has exited raised RuntimeError: {e}")
            finally:
                if sys.displayhook is not before:
                    raise Viol("reuse:hook-changed", "sequential re-use of a tag left sys.displayhook changed")
            R.exp_children[id(t)].append(("str", "again"))
            if stack:
                R.exp_children[id(stack[-1])].append(("obj", id(t)))
            else:
                R.exp_rec.append(("tag", id(t)))
        else:
            raise ValueError(ev)


def run_block(tag, body, stack, R: Run):
    hook_before = sys.displayhook
    try:
        with tag:
            if sys.displayhook is hook_before:
                raise Viol("enter:no-hook", "entering a block did not install a hook")
            stack.append(tag)
            try:
                run_body(body, stack, R)
            finally:
                stack.pop()
    finally:
        if sys.displayhook is not hook_before:
            R.viols.append(("hook-not-restored", "sys.displayhook after a block exit is not the hook "
                            "installed when it was entered", {}))
            sys.displayhook = hook_before     # keep the rest of the run meaningful
        if R.hijacked_at is not None and R.hijacked_at == len(stack) + 1:
            R.hijacked_at = None          # the hijacked block itself has exited: its entry hook is back
        # R10: the tag is handed exactly once, on exit, to the enclosing hook
        if R.hijacked_at is not None and R.hijacked_at == len(stack):
            pass                          # the enclosing hook is the foreign one: it receives (and drops) the tag
        elif stack:
            R.exp_children[id(stack[-1])].append(("obj", id(tag)))
        else:
            R.exp_rec.append(("tag", id(tag)))


class FalsyHook(list):
    """a callable hook object that is falsy (an empty list subclass): a legitimate displayhook."""

    def __init__(self, fn):
        super().__init__()
        self.fn = fn

    def __call__(self, v):
        self.fn(v)

    def __eq__(self, other):
        return self is other

    __hash__ = None


def run_program(prog, falsy_hook=False, tag_source="fresh"):
    R = Run()
    R.tag_source = tag_source

    def rec_fn(v):
        from htmltools import Tag
        R.rec.append(("tag", id(v)) if isinstance(v, Tag) and id(v) in R.tags else ("val", repr(v)))
    rec_hook = FalsyHook(rec_fn) if falsy_hook else rec_fn

    saved = sys.displayhook
    sys.displayhook = rec_hook
    escaped = None
    try:
        try:
            run_body(prog, [], R)
        except Viol as v:
            R.viols.append(v.v)
        except Exception as e:
            escaped = e
            if type(e).__name__ != R.expected_fault:
                R.viols.append(("wrong-exception", f"{type(e).__name__}: {e} escaped, expected {R.expected_fault}", {}))
        if sys.displayhook is not rec_hook:
            R.viols.append(("chain-broken", "after the program sys.displayhook is not the outermost hook", {}))
    finally:
        sys.displayhook = saved
    if not R.viols:
        ign = {("tag", i) for i in R.reused}
        rec = [x for x in R.rec if x not in ign]
        exp = [x for x in R.exp_rec if x not in ign]
        if rec != exp:
            R.viols.append(("delivery", "values handed to the outermost hook differ from the model "
                            "(each tag exactly once, on exit)", {"observed": len(rec), "expected": len(exp),
                                                                 "obs": [r[0] for r in rec], "exp": [e[0] for e in exp]}))
        for i, t in R.tags.items():
            got = [describe_child(c) for c in t.children]
            if got != R.exp_children[i] and i not in R.reused:
                R.viols.append(("children", f"children of {t.attrs.get('id', '<div class=row>')} differ from the model",
                                {"observed": [g[:1] + (g[1] if g[0] != 'obj' else 'obj',) for g in got],
                                 "expected": [g[:1] + (g[1] if g[0] != 'obj' else 'obj',) for g in R.exp_children[i]]}))
    return R


def fn(prog):
    R = run_program(prog)
    sig = (len(R.tags), len(R.rec), R.expected_fault)
    return (R.n_events >= 2 and R.n_effects >= 1, sig, R.viols, 1)


def fn_source(case):
    src, prog = case
    R = run_program(prog, tag_source=src)
    sig = (src, len(R.tags), len(R.rec), R.expected_fault)
    return (R.n_events >= 1, sig, [(k + ":tag-from-" + src, m, d) for k, m, d in R.viols], 1)


def fn_falsy(prog):
    R = run_program(prog, falsy_hook=True)
    sig = (len(R.tags), len(R.rec), R.expected_fault)
    return (R.n_events >= 2 and R.n_effects >= 1, sig, [(k + ":falsy-outer-hook", m, d) for k, m, d in R.viols], 1)


def fn_default_hook(prog):
    """the block is entered while sys.displayhook is the interpreter's default hook
    (sys.__displayhook__): on exit the tag is handed to it, i.e. printed and bound to builtins._ ."""
    import builtins
    import contextlib
    import io
    R = Run()
    saved = sys.displayhook
    had_underscore = hasattr(builtins, "_")
    old_underscore = getattr(builtins, "_", None)
    sys.displayhook = sys.__displayhook__
    buf = io.StringIO()
    viols = []
    outer = None
    try:
        with contextlib.redirect_stdout(buf):
            try:
                run_body(prog, [], R)
            except Viol as v:
                viols.append(v.v)
            except Exception as e:
                if type(e).__name__ != R.expected_fault:
                    viols.append(("wrong-exception", f"{type(e).__name__}: {e} escaped, expected {R.expected_fault}", {}))
        if sys.displayhook is not sys.__displayhook__:
            viols.append(("chain-broken:default-hook", "after the program sys.displayhook is not the default hook", {}))
        top = [t for t in R.tags.values()]
        if top and not viols:
            outer = top[0]           # the program is one outer block: its tag is created first
            printed = buf.getvalue()
            if getattr(builtins, "_", None) is not outer or printed.count(repr(outer)) != 1:
                viols.append(("delivery:default-hook", "the outer tag was not handed exactly once to the interpreter's "
                              "default display hook on exit", {"printed": printed[:200]}))
    finally:
        sys.displayhook = saved
        if had_underscore:
            builtins._ = old_underscore
        elif hasattr(builtins, "_"):
            del builtins._
    viols += R.viols
    return (True, None, [(k + ":default-hook" if not k.endswith("default-hook") else k, m, d) for k, m, d in viols], 1)


def fn_strict_hook(prog):
    """the enclosing hook RAISES when it is handed a tag: the block still restores the hook that was
    installed when it was entered."""
    from htmltools import Tag

    class Strict(Exception):
        pass

    def strict(v):
        if isinstance(v, Tag):
            raise Strict()
    R = Run()
    saved = sys.displayhook
    sys.displayhook = strict
    viols = []
    try:
        try:
            run_body(prog, [], R)
        except Viol as v:
            viols.append(v.v)
        except Strict:
            pass
        except Exception as e:
            if type(e).__name__ != R.expected_fault:
                viols.append(("wrong-exception", f"{type(e).__name__}: {e}", {}))
        if sys.displayhook is not strict:
            viols.append(("hook-not-restored:raising-enclosing-hook", "the enclosing hook raised while receiving the tag "
                          "and sys.displayhook was left pointing at the exited block", {}))
    finally:
        sys.displayhook = saved
    viols += [v for v in R.viols if v[0] == "hook-not-restored"]
    return (True, None, [(k if "raising" in k else k + ":raising-enclosing-hook", m, d) for k, m, d in viols], 1)


def bodies(atoms, lens):
    """lens[0] = max body length at this level; deeper levels follow."""
    if len(lens) == 1:
        ev = Const(atoms)
    else:
        inner = bodies(atoms, lens[1:])
        ev = Alt(Const(atoms),
                 Map(inner, lambda b: ["block", b]),
                 Map(inner, lambda b: ["tryblock", b]))
    return Seq(ev, 0, lens[0])


def plan(tier):
    out = []
    if tier == "quick":
        strata = [("depth2-full", ATOMS_FULL, [2, 2]), ("depth3-reduced", ATOMS_RED, [2, 1, 2])]
    else:
        strata = [("depth2-full", ATOMS_FULL, [2, 2]), ("depth2-full-long-outer", ATOMS_FULL, [3, 1]),
                  ("depth2-long", ATOMS_RED, [3, 2]),
                  ("depth3-reduced", ATOMS_RED, [2, 2, 1]), ("depth4-reduced", ATOMS_RED[:3], [1, 2, 1, 2])]
    for name, atoms, lens in strata:
        b = bodies(atoms, lens)
        out.append(dict(kind="space", name=name, fn=fn,
                        space=Map(b, lambda body: [["block", body]]),
                        note=f"one outer block, body lengths per level {lens}, {len(atoms)} atomic events"))
    # top-level sequences: blocks, displayed values and sequential re-use outside any block
    top_atoms = [["disp", "str"], ["disp", "tag"], ["disp", "none"], ["reuse"], ["raise"]]
    inner = bodies(ATOMS_RED, [1, 1])
    top_ev = Alt(Const(top_atoms), Map(inner, lambda b: ["block", b]), Map(inner, lambda b: ["tryblock", b]))
    out.append(dict(kind="space", name="top-level-sequences", fn=fn, space=Seq(top_ev, 0, 3),
                    note="sequences of <= 3 top-level events (blocks, try-blocks, displays, sequential re-use)"))
    dh = bodies(ATOMS_RED, [2, 1])
    out.append(dict(kind="space", name="default-displayhook", fn=fn_default_hook,
                    space=Map(dh, lambda body: [["block", body]]),
                    note="one outer block entered under sys.__displayhook__ (output captured): tag printed once and bound to builtins._"))
    sh = bodies([["disp", "str"], ["raise"], ["disp", "set"]], [2, 1])
    out.append(dict(kind="space", name="raising-enclosing-hook", fn=fn_strict_hook,
                    space=Map(sh, lambda body: [["block", body]]),
                    note="one outer block (nested blocks inside) under an enclosing hook that raises when handed a tag"))
    fa = bodies([["disp", "str"], ["render-fail"], ["doc-render-fail"], ["render-ok"], ["raise"], ["disp", "tag"]],
                [3, 2] if tier != "quick" else [2, 2])
    out.append(dict(kind="space", name="renders-that-fail-inside-a-block", fn=fn,
                    space=Map(fa, lambda body: [["block", body]]),
                    note="another tree is rendered while a block is active; an object in it raises from tagify(): the hook "
                         "chain is intact and later displayed values still reach the block's tag"))
    hj = bodies([["disp", "str"], ["replace-hook"], ["raise"], ["disp", "tag"], ["disp", "set"]], [3, 2] if tier != "quick" else [2, 2])
    out.append(dict(kind="space", name="foreign-code-replaces-the-hook-inside-a-block", fn=fn,
                    space=Map(hj, lambda body: [["block", [["disp", "str"], ["block", body], ["disp", "str"]]]]),
                    note="inside a block (itself nested in an outer block) foreign code assigns sys.displayhook and never restores it: "
                         "every block exit still restores the hook installed at its entry, the outer blocks keep collecting"))
    vk = bodies([["disp", k] for k in VALUE_KINDS] + [["raise"]], [2, 1] if tier == "quick" else [3, 1])
    out.append(dict(kind="space", name="every-kind-of-displayed-value", fn=fn,
                    space=Map(vk, lambda body: [["block", body]]),
                    note=f"one outer block (nested blocks inside) over {len(VALUE_KINDS)} kinds of displayed value, among them the "
                         "falsy and empty ones (0, 0.0, '', [], (), TagList(), HTML(''), {}, set(), frozenset(), b''): only None "
                         "and Ellipsis are ignored, numbers and the empty string are appended, empty invalid containers raise TypeError"))
    srcs = ["copy", "deepcopy", "pickle", "tagify", "child-of-deepcopy", "used-before", "structurally-equal"]
    sb = bodies(ATOMS_RED[:5], [2, 2])
    out.append(dict(kind="space", name="tags-obtained-by-copying", fn=fn_source,
                    space=Prod(Const(srcs), Map(sb, lambda body: [["block", body]])),
                    note=f"every block's tag comes from {srcs} instead of a constructor call"))
    out.append(dict(kind="space", name="falsy-outer-hook", fn=fn_falsy, space=Seq(top_ev, 0, 2),
                    note="sequences of <= 2 top-level events with a falsy callable object as the outermost hook"))
    return out
