"""Entry point:  python -m hv.main Cnn --tier quick|thorough [--replay FILE]"""
from __future__ import annotations

import argparse
import importlib
import json
import os
import sys

from . import REPO  # noqa: F401  (puts the repository under test first on sys.path)
from .runner import Ctx, _safe_call


def load(prop: str):
    return importlib.import_module(f"hv.props.{prop.lower()}")


def run_plan(mod, ctx: Ctx, only: str | None = None):
    for st in mod.plan(ctx.tier):
        if only and st["name"] != only:
            continue
        if st["kind"] == "space":
            ctx.run_space(st["name"], st["space"], st["fn"], note=st.get("note", ""),
                          execs_per_case=st.get("execs", 1), serial=st.get("serial", False))
        elif st["kind"] == "bfs":
            ctx.run_bfs(st["name"], st["init"], st["ops"], st["step"], st["depth"],
                        note=st.get("note", ""))
        elif st["kind"] == "custom":
            st["run"](ctx)
        else:
            raise ValueError(st["kind"])


def do_replay(mod, path: str) -> int:
    with open(path) as f:
        body = json.load(f)
    name, case = body["stratum"], body["case"]
    if hasattr(mod, "setup"):
        mod.setup(None)
    try:
        return _do_replay(mod, path, name, case)
    finally:
        if hasattr(mod, "teardown"):
            mod.teardown(None)


def _do_replay(mod, path, name, case) -> int:
    for tier in ("quick", "thorough"):
        for st in mod.plan(tier):
            if st["name"] != name:
                continue
            if st["kind"] == "space":
                r = _safe_call(st["fn"], case)
                viols = r[2]
            elif st["kind"] == "bfs":
                viols = []
                for n in range(1, len(case) + 1):
                    viols += st["step"](case[:n]).get("viol") or []
            else:
                viols = st["replay"](case)
            for (key, msg, detail) in viols:
                print(f"  violation[{key}]: {msg}")
                print("   ", json.dumps(detail, default=repr)[:2000])
            if viols:
                print(f"VIOLATION property={mod.ID} replay={path}")
                return 1
            print(f"replay of {path}: property held")
            return 0
    print(f"unknown stratum {name}")
    return 2


def main(argv=None) -> int:
    ap = argparse.ArgumentParser()
    ap.add_argument("prop")
    ap.add_argument("--tier", default=os.environ.get("VERIF_TIER") or "quick",
                    choices=["quick", "thorough"])
    ap.add_argument("--replay")
    ap.add_argument("--only", help="run a single stratum (debugging; no evidence claims)")
    a = ap.parse_args(argv)
    mod = load(a.prop)
    if a.replay:
        return do_replay(mod, a.replay)
    ctx = Ctx(mod.ID, a.tier, mod.LEVEL, mod.RULE, getattr(mod, "ASSUMPTIONS", []))
    try:
        if hasattr(mod, "setup"):
            mod.setup(ctx)
        run_plan(mod, ctx, a.only)
        return ctx.finish()
    finally:
        if hasattr(mod, "teardown"):
            mod.teardown(ctx)


if __name__ == "__main__":
    sys.exit(main())
