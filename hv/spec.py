"""JSON-able specs <-> fresh real htmltools objects.

Node specs (lists, so they survive a JSON round trip):
  ["E", name, ws, attrs, kids]   element; ws True/False; attrs = [[key, valspec], ...]
  ["T", text]                    plain string child
  ["N", number] / ["NS", "nan"|"inf"|"-inf"|"1e21"|"10**30"|"True"]  numeric child
  ["H", markup]                  HTML(markup)
  ["R", markup]                  object with _repr_html_() -> markup
  ["M"]                          MetadataNode()
  ["D", name, version, opts]     HTMLDependency(name, version, **opts)  (opts may hold
                                 "head_spec": [node specs] instead of "head")
  ["X", result]                  object whose tagify() returns build(result) (fresh each call)
  ["XR", result, markup]         tagifiable AND self-rendering object
  ["L", kids]                    TagList(*kids)   (only as a result / top-level value)
  ["PY", kids]                   plain python list of children (nested-list argument)
  ["TU", kids]                   tuple of children
  ["NONE"]                       None
  ["ME", label] / ["ML"]         user metadata node with state+equality / holding a lock (not deep-copyable)
  ["TS", text]                   text child of a str SUBCLASS type (custom __str__/__format__)
  ["XT", result, text] / ["XD", result]   tagifiable str subclass / tagifiable HTMLDependency subclass
  ["LSUB", kids] ["TLSUB", kids] ["NT", [a, b]]   list subclass / TagList subclass / namedtuple of children
  ["FRAC"] ["DEC"]               Fraction / Decimal (not supported as children)
  ["XS", result]                 tagifiable returning the SAME stored expansion object on every call
  ["DUP", kids]                  [c, "-", c] with c one list object (same container twice)
  ["DI", info]                   HTMLDependency from a depinfo dict (hv/ref/deps.py)
  ["HC", kids]                   head_content(*kids)
  ["OBJ"] ["DICT"] ["SET"] ["BYTES"]   values of unsupported type (object(), {"a":1}, {1}, b"x")
  ["NOTAG"] ["NOREPR"]           objects whose class sets tagify / _repr_html_ to None (not tag nodes)
  ["FALSY", which]               unsupported values that are falsy (b"", set(), {}, Decimal(0), Fraction(0), 0j, range(0))
  ["GEN", kids]                  generator yielding the children
  ["ES", name, ws, attrs, kids]  element of a user SUBCLASS of Tag (no overrides, one extra attribute)
  ["TLX", kids]                  user subclass of TagList carrying an extra instance attribute
  ["ECX", name, ws, attrs, kids] Tag whose .children has been replaced by a ["TLX", kids] list
  ["BOOM"]                       object whose tagify() raises RuntimeError("boom")
  ["REF", k]                     (only among the kids of an "E") the SAME object as kid number k of that parent
attribute value specs:  str | int | float | True | False | None | ["H", markup]
"""
from __future__ import annotations

import math
from typing import Any

import htmltools
from htmltools import HTML, HTMLDependency, MetadataNode, Tag, TagList

import enum as _enum


class _Level(_enum.IntEnum):
    HIGH = 3


class _Perm(_enum.IntFlag):
    R = 4


class _Money(float):
    def __str__(self):
        return "$" + format(float(self), ".2f")


class _MoneyR(float):
    """a float subclass with its own str() AND a rich repr: as a child it is a NUMBER (its str() text)."""

    def __str__(self):
        return "$" + format(float(self), ".2f")

    def _repr_html_(self):
        return "<b>money</b>"


class _LevelT(_enum.IntEnum):
    """an IntEnum whose members also have a tagify() method: as children they are numbers."""
    HIGH = 3

    def tagify(self):
        return Tag("span", "level")


class NoTagify:
    """the protocol method is explicitly disabled: not a tag node"""
    tagify = None


class NoRepr:
    _repr_html_ = None


SPECIAL_NUMBERS = {
    "floatsub-repr": _MoneyR(2.5), "intenum-tagify": _LevelT.HIGH,
    "intenum": _Level.HIGH, "intflag": _Perm.R, "floatsub": _Money(2.5), "-0.0": -0.0,
    "nan": float("nan"), "inf": float("inf"), "-inf": float("-inf"),
    "1e21": 1e21, "10**30": 10 ** 30, "True": True, "False": False,
}


class Repr:
    """Self-rendering object (only _repr_html_)."""

    def __init__(self, markup: str):
        self.markup = markup

    def _repr_html_(self) -> str:
        return self.markup

    def __eq__(self, o):
        return type(o) is type(self) and o.markup == self.markup

    def __hash__(self):
        return hash(self.markup)


_SIDE = {}


def side_work():
    """what a user-written tagify() may well do before returning: use the library for something unrelated (render another
    tree that has a dependency, convert another JSX component and read its dependencies, build a list from a generator
    that creates tags). Every tagifiable object of the alphabets does this, so every stratum that contains one also
    covers re-entrant use of the library."""
    from htmltools._jsx import JSXTag
    JSXTag("Side", "s", _SIDE.setdefault("dep", HTMLDependency("side-jsx-dep", "0.2"))).tagify().get_dependencies()
    Tag("ul", "side").extend(Tag("li", Tag("b", str(i))) for i in range(2))


class Tagif:
    """Tagifiable object: tagify() builds a fresh expansion from a spec each time (after some unrelated library use)."""

    def __init__(self, result_spec):
        self.result_spec = result_spec
        self.calls = 0

    def tagify(self):
        self.calls += 1
        if self.calls == 1:       # the first expansion of every tagifiable object re-enters the library
            side_work()
        r = build(self.result_spec)
        if hasattr(r, "tagify") and not isinstance(r, (str, HTML, MetadataNode)):
            r = r.tagify()
        return r

    def __eq__(self, o):
        return type(o) is type(self) and o.result_spec == self.result_spec

    def __hash__(self):
        return hash(repr(self.result_spec))


class TagifRepr(Tagif):
    def __init__(self, result_spec, markup):
        super().__init__(result_spec)
        self.markup = markup

    def _repr_html_(self):
        return self.markup


class SubText(str):
    """a text child whose type is a subclass of str and whose str()/format() are not its characters."""

    def __str__(self):
        return "<<STR>>"

    def __format__(self, spec):
        return "<<FMT>>"


class SubList(list):
    pass


class SubTagList(TagList):
    pass


class SubTag(Tag):
    """a user subclass of Tag: overrides nothing, carries one extra attribute."""

    def __init__(self, *args, **kwargs):
        super().__init__(*args, **kwargs)
        self.card_note = "note"


class NotedTagList(TagList):
    """a user subclass of TagList with an extra instance attribute."""

    def __init__(self, *args):
        super().__init__(*args)
        self.note = "noted"


def deref(spec):
    """the same spec with every ["REF", k] replaced by (a copy of) the kid it refers to."""
    if isinstance(spec, list) and spec and spec[0] == "E":
        kids = []
        for c in spec[4]:
            kids.append(kids[c[1]] if c[0] == "REF" else deref(c))
        return [spec[0], spec[1], spec[2], spec[3], kids]
    return spec


class Boom:
    def tagify(self):
        raise RuntimeError("boom")


def desub(spec):
    """the same spec with user-subclass kinds replaced by the base kinds (for reference models)."""
    if isinstance(spec, list):
        if spec and spec[0] in ("ES", "ECX"):
            return ["E"] + [desub(x) for x in spec[1:]]
        if spec and spec[0] == "TLX":
            return ["L"] + [desub(x) for x in spec[1:]]
        return [desub(x) for x in spec]
    if isinstance(spec, dict):
        return {k: desub(v) for k, v in spec.items()}
    return spec


import collections as _collections
PairNT = _collections.namedtuple("PairNT", ["first", "second"])


class TagifText(str):
    """a str subclass that is ALSO tagifiable (two protocols at once)."""

    def __new__(cls, text, result_spec):
        o = super().__new__(cls, text)
        o.result_spec = result_spec
        return o

    def tagify(self):
        r = build(self.result_spec)
        if hasattr(r, "tagify") and not isinstance(r, (str, HTML, MetadataNode)):
            r = r.tagify()
        return r


class TagifDep(HTMLDependency):
    """an HTMLDependency subclass that is ALSO tagifiable."""

    def __init__(self, result_spec):
        super().__init__("tagif-dep-itself", "9.9")
        self.result_spec = result_spec

    def tagify(self):
        r = build(self.result_spec)
        if hasattr(r, "tagify") and not isinstance(r, (str, HTML, MetadataNode)):
            r = r.tagify()
        return r


class EqMeta(MetadataNode):
    """a user-defined metadata node with state and value equality."""

    def __init__(self, label="m"):
        self.label = label
        self.marks = []

    def __copy__(self):
        c = EqMeta(self.label)
        c.marks = list(self.marks)
        return c

    def __eq__(self, o):
        return type(o) is EqMeta and o.label == self.label and o.marks == self.marks

    __hash__ = None


class LockMeta(MetadataNode):
    """a user-defined metadata node holding something that cannot be deep-copied (a lock); its own
    __copy__ shares the lock on purpose."""

    def __init__(self):
        import threading
        self.lock = threading.Lock()
        self.copies = 0

    def __copy__(self):
        c = LockMeta.__new__(LockMeta)
        c.lock = self.lock
        c.copies = self.copies + 1
        return c


class TagifStored(Tagif):
    """Tagifiable that hands out the SAME stored (already tagified) object on every call,
    as a component that keeps its rendered UI around would."""

    def __init__(self, result_spec):
        super().__init__(result_spec)
        r = build(result_spec)
        if hasattr(r, "tagify") and not isinstance(r, (str, HTML, MetadataNode)):
            r = r.tagify()
        self.stored = r

    def tagify(self):
        self.calls += 1
        return self.stored


class TagifRaw(Tagif):
    """Tagifiable whose tagify() returns its expansion as built (no recursive tagify)."""

    def tagify(self):
        self.calls += 1
        if self.calls == 1:
            side_work()
        return build(self.result_spec)


def build_jsx(spec):
    """["J", name, props, kids, mode]; props = [[rawname, valuespec], ...]; value specs are
    plain JSON values, or ["TUP", [...]], or node specs (["E"..], ["J"..], ["JX"..], ["XJ"..])."""
    from htmltools._jsx import JSXTag
    _, name, props, kids, mode = spec
    kw = {k: build_jsx_value(v) for k, v in props}
    ch = []
    for c in kids:
        ch.append(ch[c[1]] if c[0] == "REF" else build(c))     # ["REF", k]: the SAME object as child number k
    if mode == "ctor":
        return JSXTag(name, *ch, **kw)
    t = JSXTag(name, **kw)
    if mode == "append":
        for c in ch:
            t.append(c)
    elif mode == "extend":
        t.extend(ch)
    elif mode == "append-all":
        if ch:
            t.append(*ch)
    elif mode == "extend-tuple":
        t.extend(tuple(ch))
    elif mode == "extend-generator":
        t.extend(c for c in ch)
    elif mode == "extend-one-by-one":
        t.extend([])
        for c in ch:
            t.extend([c])
        t.extend(())
    else:
        raise ValueError(mode)
    return t


def build_jsx_value(v):
    if isinstance(v, list) and v and isinstance(v[0], str) and v[0] in ("E", "ES", "J", "JX", "XJ", "D"):
        return build(v)
    if isinstance(v, list) and v and v[0] == "FLT":
        return float(v[1])
    if isinstance(v, list) and v and v[0] == "SUBV":
        # prop values whose class is a SUBCLASS of dict / list / tuple / int / float / str
        import collections
        kind, payload = v[1], v[2]
        if kind == "ordereddict":
            return collections.OrderedDict((k, build_jsx_value(x)) for k, x in payload.items())
        if kind == "defaultdict":
            d = collections.defaultdict(list)
            d.update({k: build_jsx_value(x) for k, x in payload.items()})
            return d
        if kind == "namedtuple":
            return PairNT(build_jsx_value(payload[0]), build_jsx_value(payload[1]))
        if kind == "listsub":
            return SubList(build_jsx_value(x) for x in payload)
        if kind == "intenum":
            return _Level.HIGH
        if kind == "floatsub":
            return _Money(2.5)
        if kind == "jsxsub":
            from htmltools._jsx import jsx as _jsx

            class MyExpr(_jsx):
                pass
            return MyExpr(payload)
        raise ValueError(v)
    if isinstance(v, list) and v and v[0] == "TUP":
        return tuple(build_jsx_value(x) for x in v[1])
    if isinstance(v, list) and v and v[0] == "LIST":
        return [build_jsx_value(x) for x in v[1]]
    if isinstance(v, dict):
        return {k: build_jsx_value(x) for k, x in v.items()}
    return v


def build_attr_value(v: Any) -> Any:
    if isinstance(v, list):
        if v[0] == "H":
            return HTML(v[1])
        if v[0] == "NS":
            return SPECIAL_NUMBERS[v[1]]
        raise ValueError(v)
    return v


def build(spec: Any) -> Any:
    k = spec[0]
    if k == "E":
        _, name, ws, attrs, kids = spec
        built = []
        for c in kids:
            built.append(built[c[1]] if c[0] == "REF" else build(c))
        t = Tag(name, *built, _add_ws=bool(ws))
        for key, val in attrs:
            # raw dict insertion order == spec order; goes through the public normaliser
            t.attrs.update({key: build_attr_value(val)})
        return t
    if k == "ES":
        _, name, ws, attrs, kids = spec
        t = SubTag(name, *[build(c) for c in kids], _add_ws=bool(ws))
        for key, val in attrs:
            t.attrs.update({key: build_attr_value(val)})
        return t
    if k == "TLX":
        return NotedTagList(*[build(c) for c in spec[1]])
    if k == "ECX":
        _, name, ws, attrs, kids = spec
        t = Tag(name, _add_ws=bool(ws))
        for key, val in attrs:
            t.attrs.update({key: build_attr_value(val)})
        t.children = NotedTagList(*[build(c) for c in kids])
        return t
    if k == "BOOM":
        return Boom()
    if k == "T":
        return spec[1]
    if k == "N":
        return spec[1]
    if k == "NS":
        return SPECIAL_NUMBERS[spec[1]]
    if k == "H":
        return HTML(spec[1])
    if k == "R":
        return Repr(spec[1])
    if k == "M":
        return MetadataNode()
    if k == "D":
        return build_dep(spec)
    if k == "X":
        return Tagif(spec[1])
    if k == "XR":
        return TagifRepr(spec[1], spec[2])
    if k == "L":
        return TagList(*[build(c) for c in spec[1]])
    if k == "PY":
        return [build(c) for c in spec[1]]
    if k == "TU":
        return tuple(build(c) for c in spec[1])
    if k == "NONE":
        return None
    if k == "NOTAG":
        return NoTagify()
    if k == "NOREPR":
        return NoRepr()
    if k == "FALSY":
        import decimal
        import fractions
        return {"bytes0": b"", "set0": set(), "dict0": {}, "dec0": decimal.Decimal("0"), "frac0": fractions.Fraction(0),
                "complex0": 0j, "range0": range(0), "bytearray0": bytearray()}[spec[1]]
    if k == "OBJ":
        return object()
    if k == "DICT":
        return {"a": 1}
    if k == "SET":
        return {1}
    if k == "BYTES":
        return b"x"
    if k == "GEN":
        return (build(c) for c in spec[1])
    if k == "DI":
        from .ref.deps import build_dep as _bd
        return _bd(spec[1])
    if k == "HC":
        from htmltools import head_content
        return head_content(*[build(c) for c in spec[1]])
    if k == "J":
        return build_jsx(spec)
    if k == "JX":
        from htmltools._jsx import jsx
        return jsx(spec[1])
    if k == "XJ":
        return TagifRaw(spec[1])
    if k == "XS":
        return TagifStored(spec[1])
    if k == "ME":
        return EqMeta(spec[1] if len(spec) > 1 else "m")
    if k == "ML":
        return LockMeta()
    if k == "TS":
        return SubText(spec[1])
    if k == "XT":
        return TagifText(spec[2], spec[1])
    if k == "XD":
        return TagifDep(spec[1])
    if k == "LSUB":
        return SubList(build(c) for c in spec[1])
    if k == "TLSUB":
        return SubTagList(*[build(c) for c in spec[1]])
    if k == "NT":
        return PairNT(build(spec[1][0]), build(spec[1][1]))
    if k == "FRAC":
        import fractions
        return fractions.Fraction(1, 2)
    if k == "DEC":
        import decimal
        return decimal.Decimal("1.5")
    if k == "DUP":
        c = [build(x) for x in spec[1]]
        return [c, "-", c]          # the same container object twice in one argument
    raise ValueError(f"unknown spec kind {k!r}")


def build_dep(spec) -> HTMLDependency:
    _, name, version, opts = spec
    o = {}
    for kk, vv in (opts or {}).items():
        if kk == "head_spec":
            o["head"] = TagList(*[build(c) for c in vv])
        else:
            # deep copy plain data so the dependency never aliases the spec
            o[kk] = _copy_plain(vv)
    return HTMLDependency(name, version, **o)


def _copy_plain(v):
    if isinstance(v, dict):
        return {k: _copy_plain(x) for k, x in v.items()}
    if isinstance(v, list):
        return [_copy_plain(x) for x in v]
    return v


# ----------------------------------------------------------------- short-hands
def E(name, ws, kids=(), attrs=()):
    return ["E", name, ws, [list(a) for a in attrs], list(kids)]


def B(kids=(), attrs=()):
    return E("div", True, kids, attrs)


def I(kids=(), attrs=()):  # noqa: E743
    return E("span", False, kids, attrs)


def Vb(kids=(), attrs=()):
    return E("hr", True, kids, attrs)


def Vi(kids=(), attrs=()):
    return E("br", False, kids, attrs)


def T(s):
    return ["T", s]


def H(s):
    return ["H", s]


def R(s):
    return ["R", s]


M = ["M"]


def num_text(spec) -> str:
    """str() text of a numeric leaf spec."""
    if spec[0] == "N":
        return str(spec[1])
    return str(SPECIAL_NUMBERS[spec[1]])


def is_element(spec) -> bool:
    return spec[0] == "E"


def walk(spec):
    yield spec
    if spec[0] in ("E", "ES", "ECX"):
        for c in spec[4]:
            yield from walk(c)
    elif spec[0] in ("L", "PY", "TU", "TLX"):
        for c in spec[1]:
            yield from walk(c)
