"""Execution engine: sharded exhaustive enumeration (E1/E3), explicit-state BFS over
operation histories (E2), evidence, violations, replays, known findings.

A *check function* takes one case (JSON-able data), builds fresh real objects from it,
runs the implementation and the reference model, and returns
    (nontrivial: bool, outcome: hashable, violations: list[(key, message, detail)])
`key` identifies the failing input class (used for known-findings matching and for
grouping), `detail` is a JSON-able dict (observed / expected ...).
"""
from __future__ import annotations

import hashlib
import json
import multiprocessing as mp
import os
import random
import sys
import time
import traceback
from typing import Any, Callable, Iterable

from . import VERIF, REPO
from .space import Space

NPROC = int(os.environ.get("HV_PROCS", "0")) or (os.cpu_count() or 4)
MAX_VIOL_PER_CHUNK = 40
MAX_REPLAYS = 8

_CUR: tuple = ()


def _h64(x: Any) -> int:
    if not isinstance(x, (str, bytes)):
        x = repr(x)
    if isinstance(x, str):
        x = x.encode("utf-8", "surrogatepass")
    return int.from_bytes(hashlib.blake2b(x, digest_size=8).digest(), "big")


def _safe_call(fn, case):
    try:
        r = fn(case)
    except Exception as e:  # an exception the oracle did not anticipate
        tb = traceback.format_exc(limit=6)
        return (False, "EXC:" + type(e).__name__,
                [("unexpected-exception:" + type(e).__name__,
                  f"unexpected {type(e).__name__}: {e}", {"traceback": tb})])
    if r is None:
        return (False, None, [])
    return r


def _work_range(args):
    lo, hi, want_sample, epc = args
    space, fn = _CUR
    n = nt = ex = 0
    outs = set()
    viols = []
    nviol = 0
    sample = None
    for i in range(lo, hi):
        case = space[i]
        r = _safe_call(fn, case)
        nontriv, outcome, vs = r[0], r[1], r[2]
        ex += r[3] if len(r) > 3 else epc
        n += 1
        if nontriv:
            nt += 1
        if outcome is not None:
            outs.add(_h64(outcome))
        if vs:
            nviol += len(vs)
            for v in vs:
                if len(viols) < MAX_VIOL_PER_CHUNK:
                    viols.append((i, case, v))
        if want_sample and sample is None and (nontriv or i == hi - 1):
            sample = case
    return n, nt, outs, viols, nviol, sample, ex


def _work_bfs(args):
    hists = args
    ops_fn, step_fn = _CUR
    out = []
    for hist in hists:
        for op in ops_fn(hist):
            nh = hist + [op]
            try:
                r = step_fn(nh)
            except Exception as e:
                tb = traceback.format_exc(limit=6)
                r = {"key": None, "viol": [("unexpected-exception:" + type(e).__name__,
                                              f"unexpected {type(e).__name__}: {e}",
                                              {"traceback": tb})]}
            out.append((nh, r))
    return out


class Violation:
    def __init__(self, stratum, case, key, msg, detail):
        self.stratum, self.case, self.key, self.msg, self.detail = stratum, case, key, msg, detail


# a failing run is cut short once this many violating cases have been seen (never reached on a tree where the property holds)
VIOL_STOP = int(os.environ.get("HV_VIOL_STOP", "20000"))


class Ctx:
    def __init__(self, prop: str, tier: str, level: str, rule: str,
                 assumptions: list[str] | None = None):
        self.prop = prop
        self.tier = tier
        self.level = level
        self.rule = rule
        self.assumptions = assumptions or []
        self.seed = int(os.environ.get("VERIF_SEED", "0") or 0)
        self.rng = random.Random(self.seed)
        self.t0 = time.time()
        self.max_seconds = float(os.environ.get("HV_MAX_SECONDS", "0") or 0)
        self.strata: list[dict] = []
        self.violations: list[Violation] = []
        self.nviol_total = 0
        self.samples: list = []
        self.caps_hit: list[str] = []
        self.extra: dict = {}
        self.quiet = bool(os.environ.get("HV_QUIET"))

    # ------------------------------------------------------------------ util
    def log(self, *a):
        if not self.quiet:
            print(f"[{self.prop} {time.time()-self.t0:6.1f}s]", *a, flush=True)

    def over_time(self) -> bool:
        return bool(self.max_seconds) and (time.time() - self.t0) > self.max_seconds

    # ------------------------------------------------------- E1 / E3 spaces
    def run_space(self, name: str, space: Space, fn: Callable[[Any], Any],
                  note: str = "", execs_per_case: int = 1, serial: bool = False):
        """Exhaustively run fn over every case of space (sharded)."""
        global _CUR
        t = time.time()
        size = space.size
        if self.nviol_total >= VIOL_STOP:
            # the run has failed many times over already: further strata add nothing and, on a tree that degrades with
            # every call, can take very long
            self.caps_hit.append(f"{name}: not explored, {self.nviol_total} violating cases found before (HV_VIOL_STOP={VIOL_STOP})")
            self.strata.append({"stratum": name, "engine": "E1/E3 exhaustive enumeration", "cases": 0, "space_size": size,
                                "complete": False, "nontrivial": 0, "distinct_outcomes": 0, "impl_executions": 0,
                                "violations": 0, "wall_s": 0.0, "bound": note})
            return self.strata[-1]
        _CUR = (space, fn)
        nproc = 1 if (serial or size < 200) else NPROC
        nchunks = max(1, min(size, nproc * 8))
        bounds = [(size * k) // nchunks for k in range(nchunks + 1)]
        want = set(self.rng.sample(range(nchunks), min(3, nchunks)))
        tasks = [(bounds[k], bounds[k + 1], k in want, execs_per_case) for k in range(nchunks)
                 if bounds[k + 1] > bounds[k]]
        n = nt = nviol = nex = 0
        outs: set = set()
        done_all = True
        results: Iterable
        if nproc == 1:
            results = map(_work_range, tasks)
            pool = None
        else:
            pool = mp.get_context("fork").Pool(nproc)
            results = pool.imap_unordered(_work_range, tasks)
        try:
            for (cn, cnt, couts, cviols, cnviol, sample, cex) in results:
                n += cn
                nex += cex
                nt += cnt
                outs |= couts
                nviol += cnviol
                for (i, case, (key, msg, detail)) in cviols:
                    self.violations.append(Violation(name, case, key, msg, detail))
                if sample is not None and len(self.samples) < 12:
                    self.samples.append({"stratum": name, "case": sample})
                if self.over_time():
                    done_all = False
                    self.caps_hit.append(f"{name}: HV_MAX_SECONDS reached after {n}/{size} cases")
                    break
                if self.nviol_total + nviol >= VIOL_STOP and n < size:
                    done_all = False
                    self.caps_hit.append(f"{name}: stopped after {n}/{size} cases with {nviol} violating cases (HV_VIOL_STOP={VIOL_STOP})")
                    break
        finally:
            if pool is not None:
                pool.terminate()
                pool.join()
        self.nviol_total += nviol
        st = {"stratum": name, "engine": "E1/E3 exhaustive enumeration", "cases": n,
              "space_size": size, "complete": done_all and n == size,
              "nontrivial": nt, "distinct_outcomes": len(outs),
              "impl_executions": nex, "violations": nviol,
              "wall_s": round(time.time() - t, 2), "bound": note}
        self.strata.append(st)
        self.log(f"stratum {name}: {n}/{size} cases, nontrivial={nt}, outcomes={len(outs)}, "
                 f"violations={nviol}, {st['wall_s']}s")
        return st

    # ------------------------------------------------------------- E2 BFS
    def run_bfs(self, name: str, init: list, ops_fn: Callable[[list], list],
                step_fn: Callable[[list], dict], max_depth: int, note: str = ""):
        """Explicit-state breadth-first search over operation histories.

        A state is the history reaching it.  step_fn(hist) rebuilds fresh real objects
        by replaying hist, checks the invariant for the LAST transition against the
        reference model, and returns {"key": canonical key or None (=do not expand),
        "nontrivial": bool, "outcome": hashable, "viol": [...]}.
        """
        global _CUR
        t = time.time()
        _CUR = (ops_fn, step_fn)
        seen: set = set()
        frontier = [list(h) for h in init]
        transitions = nt = nviol = 0
        outs: set = set()
        depth_done = 0
        per_depth = []
        complete = True
        pool = mp.get_context("fork").Pool(NPROC)
        try:
            for depth in range(1, max_depth + 1):
                if not frontier:
                    break
                csize = max(1, len(frontier) // (NPROC * 6))
                chunks = [frontier[i:i + csize] for i in range(0, len(frontier), csize)]
                nxt = []
                if len(frontier) < 8:
                    results = map(_work_bfs, chunks)
                else:
                    results = pool.imap(_work_bfs, chunks)
                for res in results:
                    for nh, r in res:
                        transitions += 1
                        if r.get("nontrivial"):
                            nt += 1
                        if r.get("outcome") is not None:
                            outs.add(_h64(r["outcome"]))
                        for (key, msg, detail) in r.get("viol") or []:
                            nviol += 1
                            if len(self.violations) < 400:
                                self.violations.append(Violation(name, nh, key, msg, detail))
                        k = r.get("key")
                        if k is not None:
                            hk = _h64(k)
                            if hk not in seen:
                                seen.add(hk)
                                nxt.append(nh)
                per_depth.append({"depth": depth, "transitions_cum": transitions,
                                  "states_cum": len(seen), "new_states": len(nxt)})
                depth_done = depth
                if nxt and len(self.samples) < 12:
                    self.samples.append({"stratum": name,
                                         "history": nxt[self.rng.randrange(len(nxt))]})
                frontier = nxt
                if self.over_time():
                    complete = depth == max_depth
                    if not complete:
                        self.caps_hit.append(f"{name}: HV_MAX_SECONDS reached after depth {depth}")
                    break
                if self.nviol_total + nviol >= VIOL_STOP and depth < max_depth and frontier:
                    complete = False
                    self.caps_hit.append(f"{name}: stopped after depth {depth} with {nviol} violating transitions (HV_VIOL_STOP={VIOL_STOP})")
                    break
        finally:
            pool.terminate()
            pool.join()
        self.nviol_total += nviol
        st = {"stratum": name, "engine": "E2 explicit-state BFS over histories",
              "states": len(seen), "transitions": transitions, "max_depth": depth_done,
              "complete": complete, "nontrivial": nt, "distinct_outcomes": len(outs),
              "per_depth": per_depth, "violations": nviol,
              "wall_s": round(time.time() - t, 2), "bound": note}
        self.strata.append(st)
        self.log(f"stratum {name}: BFS depth {depth_done}: states={len(seen)} "
                 f"transitions={transitions} nontrivial={nt} outcomes={len(outs)} "
                 f"violations={nviol}, {st['wall_s']}s")
        return st

    # ------------------------------------------------- direct (tiny) cases
    def run_cases(self, name: str, cases: list, fn, note: str = "", execs_per_case: int = 1):
        from .space import Const
        return self.run_space(name, Const(cases), fn, note=note,
                              execs_per_case=execs_per_case)

    # ------------------------------------------------------------- finish
    def finish(self) -> int:
        from .findings import load_known, match_known
        known = load_known(self.prop)
        unlisted: list[Violation] = []
        listed: dict[str, int] = {}
        for v in self.violations:
            kf = match_known(known, v.key)
            if kf is None:
                unlisted.append(v)
            else:
                listed[kf["key"]] = listed.get(kf["key"], 0) + 1
        for kf in known:
            if kf["key"] in listed:
                print(f"KNOWN-FINDING: property={self.prop} {kf['what']} "
                      f"(key={kf['key']}, {listed[kf['key']]} cases this run)")
        # group unlisted by key, write replay files
        replays = []
        by_key: dict[str, list[Violation]] = {}
        for v in unlisted:
            by_key.setdefault(v.key, []).append(v)
        os.makedirs(os.path.join(VERIF, "replays"), exist_ok=True)
        for key, vs in list(by_key.items())[:MAX_REPLAYS]:
            v = min(vs, key=lambda v: len(json.dumps(v.case, default=repr)))
            body = {"property": self.prop, "stratum": v.stratum, "case": v.case,
                    "key": v.key, "message": v.msg, "detail": v.detail,
                    "how_to_replay": f"./check {self.prop} --replay <this file>"}
            txt = json.dumps(body, indent=1, default=repr, ensure_ascii=True)
            dig = hashlib.sha1(txt.encode()).hexdigest()[:10]
            path = os.path.join(VERIF, "replays", f"{self.prop}-{dig}.json")
            with open(path, "w") as f:
                f.write(txt)
            replays.append(path)
            print(f"  violation[{key}] x{len(vs)}: {v.msg}")
            print(f"VIOLATION property={self.prop} replay={path}")
        n_unlisted_total = self.nviol_total - sum(listed.values())
        self.write_evidence(len(unlisted), by_key)
        if unlisted:
            return 1
        if self.caps_hit:
            print(f"HARNESS-CAP property={self.prop} {self.caps_hit}")
            return 2
        print(f"OK property={self.prop} tier={self.tier} "
              f"cases={sum(s.get('cases', s.get('transitions', 0)) for s in self.strata)} "
              f"wall={time.time()-self.t0:.1f}s")
        return 0

    def write_evidence(self, n_unlisted: int, by_key: dict):
        states = 0
        transitions = 0
        evals = 0
        nt = 0
        for s in self.strata:
            if "states" in s:
                states += s["states"]
                transitions += s["transitions"]
                evals += s["transitions"]
            else:
                states += s["cases"]
                transitions += s["impl_executions"]
                evals += s["cases"]
            nt += s["nontrivial"]
        exhaustive = all(s["complete"] for s in self.strata) and not self.caps_hit
        cov = {
            "states": states,
            "transitions": transitions,
            "traces_validated_against_impl": evals,
            "samples": self.samples[:12] or [{"note": "no sample recorded"}],
            "exhaustive": exhaustive,
            "evaluations": evals,
            "distinct_nontrivial": nt,
            "rule": self.rule,
            "strata": self.strata,
            "distinct_outcomes": sum(s["distinct_outcomes"] for s in self.strata),
            "caps_hit": self.caps_hit,
            "violation_keys": {k: len(v) for k, v in list(by_key.items())[:50]},
            "explanation": ("every execution is an execution of the real implementation "
                            "(import from %s working tree), compared with a reference model; "
                            "states = distinct cases / canonical states, transitions = "
                            "implementation executions / operation applications" % REPO),
        }
        cov.update(self.extra)
        ev = {
            "property_id": self.prop,
            "tier": self.tier,
            "seed": self.seed,
            "level": self.level,
            "coverage": cov,
            "assumptions": self.assumptions,
            "wall_s": round(time.time() - self.t0, 2),
            "violations": n_unlisted,
        }
        os.makedirs(os.path.join(VERIF, "evidence"), exist_ok=True)
        path = os.path.join(VERIF, "evidence", f"{self.prop}.json")
        tmp = path + ".tmp"
        with open(tmp, "w") as f:
            json.dump(ev, f, indent=1, default=repr)
        os.replace(tmp, path)
