"""Child interpreter for C18: renders the battery in every permutation of its items and
prints one JSON document (digests per item, any order dependence, head_content facts).
Started by hv/props/c18.py with a specific PYTHONHASHSEED."""
from __future__ import annotations

import hashlib
import itertools
import json
import sys

from . import REPO  # noqa: F401


def dg(*parts) -> str:
    h = hashlib.sha256()
    for p in parts:
        h.update(repr(p).encode("utf-8", "surrogatepass"))
        h.update(b"\0")
    return h.hexdigest()[:24]


PROBLEMS = []


def expect_same(what, a, b):
    """history independence inside one item: a construction used after some history must give the
    same as the same construction used fresh."""
    if a != b:
        PROBLEMS.append(f"{what}: result after earlier use differs from a fresh construction")


def deps_sig(deps):
    return [(d.name, str(d.version)) for d in deps]


def battery():
    from htmltools import (HTML, HTMLDependency, HTMLDocument, HTMLTextDocument, Tag, TagList, css,
                           head_content, tags)
    from htmltools._jsx import jsx, jsx_tag_create

    def dep(n, v="1.0", **kw):
        return HTMLDependency(n, v, source={"subdir": "lib/" + n}, script={"src": n + ".js"}, **kw)

    def many_deps():
        names = ["zeta", "alpha", "mu", "beta", "omega", "delta", "kappa"]
        d = [dep(n) for n in names]
        doc = HTMLDocument(tags.div(d[0], tags.span(d[1], "x"), tags.div(tags.p(d[2]), d[3])),
                           d[4], tags.p("t", d[5], d[1], dep("alpha", "2.0")), d[6], lang="en")
        r = doc.render()
        return dg(r["html"], deps_sig(r["dependencies"]))

    def dup_head_content():
        a1 = head_content(tags.title("a"))
        a2 = head_content(tags.title("a"))
        b = head_content(tags.title("b"), tags.meta(name="x"))
        c = head_content("plain text", HTML("<!--c-->"))
        r = HTMLDocument(tags.div(a1, "x", b), a2, tags.p(c, a1)).render()
        return dg(r["html"], deps_sig(r["dependencies"]), a1.name, a2.name, b.name, c.name)

    def text_document():
        ds = [dep(n) for n in ["s3", "s1", "s5", "s2", "s4"]]
        sers = [d.serialize_to_script_json().get_html_string() for d in ds]
        html = "<html><head>HERE</head><body>" + "<p>x</p>".join(sers + sers[:2] + sers[3:]) + "</body></html>"
        doc = HTMLTextDocument(html, deps_replace_pattern="HERE")
        r = doc.render()
        return dg(r["html"], deps_sig(r["dependencies"]))

    def jsx_component():
        Foo = jsx_tag_create("Foo")
        Bar = jsx_tag_create("Bar")
        x = Foo(tags.div("c", dep("j1")), Bar(dep("j2"), k=[1, {"z": 1, "a": 2}]), "t",
                b={"y": 1, "x": [True, None]}, a=jsx("fn"), class_="c", style={"m": "1", "a": "2"})
        return dg(str(x), deps_sig(HTMLDocument(x).render()["dependencies"]))

    def jsx_component_b():
        # a second, unrelated component: nothing of the first one may show up in it
        Baz = jsx_tag_create("Baz")
        x = Baz(tags.span("only", dep("jb1")), p=tags.i(dep("jb2")))
        t = x.tagify()
        return dg(str(x), deps_sig(t.get_dependencies(dedup=False)), deps_sig(HTMLDocument(x).render()["dependencies"]))

    def failed_operations():
        # renders and saves that fail half-way (an object raises from tagify()), in both render modes: they
        # must leave no trace in the process
        import htmltools
        import tempfile, shutil, os

        class Boom:
            def tagify(self):
                raise RuntimeError("boom")

        hook0 = sys.displayhook
        outcomes = []
        for mode in ("invisible", "json"):
            assert htmltools.html_dependency_render_mode == "invisible"
            htmltools.html_dependency_render_mode = mode
            try:
                for what in ("tag", "list", "document", "save", "jsx"):
                    try:
                        if what == "tag":
                            tags.div(dep("f1"), Boom()).render()
                        elif what == "list":
                            str(TagList("a", tags.p(Boom())))
                        elif what == "document":
                            HTMLDocument(tags.div(dep("f2")), tags.p(Boom())).render()
                        elif what == "jsx":
                            str(jsx_tag_create("Fails")(tags.div(dep("f3")), Boom()))
                        else:
                            d = tempfile.mkdtemp(prefix="hv-c18-")
                            try:
                                tags.div(Boom()).save_html(os.path.join(d, "i.html"))
                            finally:
                                shutil.rmtree(d, ignore_errors=True)
                        outcomes.append("no-error")
                    except RuntimeError:
                        outcomes.append("raised")
                    if htmltools.html_dependency_render_mode != mode:
                        PROBLEMS.append(f"a {what} render that failed in {mode} mode left html_dependency_render_mode = "
                                        f"{htmltools.html_dependency_render_mode!r}")
                        htmltools.html_dependency_render_mode = mode
                    if sys.displayhook is not hook0:
                        PROBLEMS.append(f"a {what} render that failed left sys.displayhook replaced")
                        sys.displayhook = hook0
            finally:
                htmltools.html_dependency_render_mode = "invisible"
        return dg(*outcomes)

    def callers_change_what_they_got():
        # user code changes values the library handed out (the mapping from source_path_map(), the lists from
        # get_dependencies() / render()): nothing of that may reach later, unrelated objects
        d0 = HTMLDependency("plain", "1.0", script={"src": "p.js"}, stylesheet={"href": "p.css"})
        before = dg(str(d0.as_dict()), str(d0.as_html_tags()), str(d0.source_path_map()))
        victim = HTMLDependency("other", "2.0", script={"src": "o.js"})
        m = victim.source_path_map()
        m["href"] = "static/" + m["href"]
        m["source"] = "/elsewhere"
        t = tags.div(dep("cw1"), dep("cw2"))
        lst = t.get_dependencies()
        lst.reverse()
        lst.append(dep("cw3"))
        r = t.render()
        r["dependencies"].clear()
        d1 = HTMLDependency("plain", "1.0", script={"src": "p.js"}, stylesheet={"href": "p.css"})
        after = dg(str(d1.as_dict()), str(d1.as_html_tags()), str(d1.source_path_map()))
        if before != after:
            PROBLEMS.append("a source-less dependency built after user code changed the mapping returned by another dependency's "
                            "source_path_map() gives different URLs")
        return dg(after, deps_sig(t.get_dependencies()), t.render()["html"])

    def attr_merges():
        t = Tag("div", {"zeta": "1", "class": "a", "alpha": "2"}, {"class": HTML("b"), "mu": True},
                tags.span("k", beta="b", alpha="a"), class_="c", data_x=3, omega="w")
        t.add_class("d").add_style("q:1;").add_style(css(z_index=1, a_b="2", font_size="3px"), prepend=True)
        t.remove_class("a")
        return dg(str(t), list(t.attrs.items()))

    def resolution():
        d = [dep("r", "1.0"), dep("q", "3"), dep("r", "1.10"), dep("p", "0.1"), dep("q", "3.0"),
             dep("r", "1.9"), dep("o", "2")]
        tl = TagList(d[0], tags.div(d[1], tags.span(d[2])), d[3], tags.p(d[4], d[5]), d[6])
        r = tl.render()
        s = [x.serialize_to_script_json(indent=2).get_html_string() for x in r["dependencies"]]
        return dg(r["html"], deps_sig(tl.get_dependencies()), deps_sig(r["dependencies"]), s,
                  [x.as_dict() for x in tl.get_dependencies(dedup=False)])

    def escapes():
        # attribute values holding only quotes / newlines, text holding only & < >
        t = Tag("div", {"title": 'say "hi"\n', "data-x": "it's"}, "a & b",
                Tag("span", "<x>", title='q"'), Tag("p", 'plain "quoted" text', id="i\r"))
        t2 = Tag("div", "x", class_=HTML("h")).add_class('k"')
        return dg(str(t), str(t2), HTMLDocument(t).render()["html"], t.get_html_string(1, "\r\n"))

    def version_spelling_a():
        d = dep("widget", "2.0", stylesheet={"href": "w.css"})
        r = HTMLDocument(tags.div("a", d)).render()
        return dg(r["html"], str(d), d.as_dict(), deps_sig(r["dependencies"]))

    def version_spelling_b():
        # identical to version_spelling_a's dependency except for how the version is spelled
        d = dep("widget", "2.0.0", stylesheet={"href": "w.css"})
        r = HTMLDocument(tags.div("b", d)).render()
        # the dependency is changed after it has been rendered: later renders show the change,
        # exactly as a dependency built that way from the start
        d.script.append({"src": "later.js"})
        d.meta.append({"name": "m", "content": "c"})
        r2 = HTMLDocument(tags.div("b", d)).render()
        fresh = HTMLDependency("widget", "2.0.0", source={"subdir": "lib/widget"},
                               script=[{"src": "widget.js"}, {"src": "later.js"}], stylesheet={"href": "w.css"},
                               meta={"name": "m", "content": "c"})
        expect_same("dependency changed after a render", (r2["html"], str(d), repr(d.as_dict())),
                    (HTMLDocument(tags.div("b", fresh)).render()["html"], str(fresh), repr(fresh.as_dict())))
        return dg(r["html"], r2["html"], str(d), d.as_dict())

    def shared_page():
        # one TagList used for several documents, one of which is appended to
        def mk():
            return TagList(tags.div("page", dep("pg")), "tail")
        page = mk()
        d1 = HTMLDocument(page)
        h1 = d1.render()["html"]
        d1.append(tags.p("extra"), dep("extra-dep"), head_content(tags.title("x")))
        d1.render()
        d2 = HTMLDocument(page)
        expect_same("TagList used by a document that was appended to", (d2.render()["html"], str(page)),
                    (HTMLDocument(mk()).render()["html"], str(mk())))
        t = tags.div("t", class_="a")
        t.get_html_string(2)
        t.add_class("b")
        t.attrs.pop("class")
        t.append(tags.span("late"))
        expect_same("tag changed after a render", t.get_html_string(), tags.div("t", tags.span("late")).get_html_string())
        # a document is rendered, a tag inside its content is changed, the document is rendered again
        inner = tags.div("in", id="inner")
        d3 = HTMLDocument(inner, tags.p("x"), lang="en")
        d3.render(lib_prefix=None)
        d3.render()
        inner.append(tags.b("later"), dep("later-dep"))
        inner.add_class("changed")
        r3 = d3.render()
        f3 = HTMLDocument(tags.div("in", tags.b("later"), dep("later-dep"), id="inner", class_="changed"),
                          tags.p("x"), lang="en").render()
        expect_same("document rendered again after a tag inside its content changed",
                    (r3["html"], deps_sig(r3["dependencies"])), (f3["html"], deps_sig(f3["dependencies"])))
        # head_content(): a payload is changed after the first dependency was built from it; a new
        # head_content() of the ORIGINAL markup is a dependency of its own with the original markup
        t1 = tags.title("orig")
        hc1 = head_content(t1)
        t1.append("-changed")
        hc2 = head_content(tags.title("orig"))
        expect_same("head_content built after an equal payload was changed",
                    (hc2.name, hc2.head.get_html_string(), hc2 is hc1, HTMLDocument(tags.div(hc2)).render()["html"]),
                    (hc1.name, "<title>orig</title>", False,
                     HTMLDocument(tags.div(head_content(tags.title("orig")))).render()["html"]))
        return dg(h1, d2.render()["html"], str(page), r3["html"], hc1.name)

    def text_document_b():
        ser = dep("solo").serialize_to_script_json().get_html_string()
        doc = HTMLTextDocument("<head>HERE</head>" + ser, deps_replace_pattern="HERE")
        r = doc.render()
        return dg(r["html"], deps_sig(r["dependencies"]), css(opacity=1), css(opacity=1.0), css(z=True),
                  str(TagList(1, 1.0, True, 0, -0.0, 0.0)))

    class Adapter:
        """wraps any object; exposes tagify() only when the wrapped object has one (set per INSTANCE)"""

        def __init__(self, obj):
            self.obj = obj
            if hasattr(obj, "tagify"):
                self.tagify = obj.tagify

        def _repr_html_(self):
            return "<adapter/>"

    class Plain:
        def _repr_html_(self):
            return "<plain/>"

    def adapter_with_tagify():
        x = tags.div("a", Adapter(tags.span("inner", dep("ad1"))), "z")
        r = x.render()
        return dg(r["html"], deps_sig(r["dependencies"]))

    def adapter_without_tagify():
        x = tags.div("a", Adapter(Plain()), "z")
        r = x.render()
        return dg(r["html"], deps_sig(r["dependencies"]), x.get_html_string())

    def json_mode():
        import htmltools
        x = TagList(tags.div("j", dep("jm3"), dep("jm1")), dep("jm2"), tags.p(dep("jm4"), dep("jm5")))
        assert htmltools.html_dependency_render_mode == "invisible"
        htmltools.html_dependency_render_mode = "json"
        try:
            s = str(x)
            s2 = repr(tags.div(dep("k2"), dep("k1")))
        finally:
            htmltools.html_dependency_render_mode = "invisible"
        return dg(s, s2, str(x))

    def same_name_other_source():
        # dependencies that share name AND version but come from different kinds of source (a package directory, a URL,
        # a plain directory): what one of them renders to never depends on which of the others was rendered earlier,
        # for every lib_prefix / include_version combination and on every rendering path
        def mk(kind):
            src = {"pkg": {"package": "htmltools", "subdir": "lib/shared"}, "href": {"href": "https://cdn.example/shared"},
                   "dir": {"subdir": "lib/shared"}}[kind]
            return HTMLDependency("shared", "1.0", source=src, script={"src": "s.js"}, stylesheet={"href": "s.css"})

        def obs(kind, lp, iv):
            d = mk(kind)
            r = HTMLDocument(tags.div("x", d)).render(lib_prefix=lp, include_version=iv)
            return (r["html"], repr(d.as_dict(lib_prefix=lp, include_version=iv)),
                    d.as_html_tags(lib_prefix=lp, include_version=iv).get_html_string(),
                    repr(d.source_path_map(lib_prefix=lp, include_version=iv)["href"]))

        out = []
        for lp, iv in (("lib", True), (None, False)):
            if True:
                for order in (("pkg", "href", "dir"), ("href", "dir", "pkg")):
                    seen = {}
                    for kind in order + order:
                        o = obs(kind, lp, iv)
                        if kind in seen:
                            expect_same(f"same name and version, {kind} source, rendered again after the other sources", o, seen[kind])
                        seen[kind] = o
                    # absolute anchor (the first observation may already follow some history in this process)
                    h = seen["href"]
                    if "https://cdn.example/shared/s.js" not in h[0] or "https://cdn.example/shared/s.css" not in h[2]:
                        PROBLEMS.append("same name and version, URL source: result after earlier use differs from a fresh construction "
                                        "(script/stylesheet URL is not href/path)")
                    loc = ("" if lp is None else lp + "/") + ("shared-1.0" if iv else "shared")
                    for kind in ("pkg", "dir"):
                        if f'"{loc}/s.js"' not in seen[kind][0] or "cdn.example" in seen[kind][0]:
                            PROBLEMS.append(f"same name and version, {kind} source: result after earlier use differs from a fresh "
                                            "construction (script URL is not prefix/name[-version]/path)")
                    out.append((lp, iv, order, seen))
        return dg(repr(out))

    # the first five/seven items are the ones permuted: pairs whose relative order matters
    return [("version_spelling_a", version_spelling_a), ("adapter_with_tagify", adapter_with_tagify),
            ("version_spelling_b", version_spelling_b), ("adapter_without_tagify", adapter_without_tagify),
            ("escapes", escapes), ("json_mode", json_mode), ("text_document_b", text_document_b), ("shared_page", shared_page), ("same_name_other_source", same_name_other_source), ("many_deps", many_deps), ("dup_head_content", dup_head_content), ("text_document", text_document),
            ("jsx_component", jsx_component), ("attr_merges", attr_merges), ("resolution", resolution),
            ("jsx_component_b", jsx_component_b), ("failed_operations", failed_operations),
            ("callers_change_what_they_got", callers_change_what_they_got)]


HC_PAYLOADS = [
    ("title-a", lambda t, H: [t.title("a")]),
    ("title-a-again", lambda t, H: [t.title("a")]),
    ("title-a-via-list", lambda t, H: [[t.title("a")]]),
    ("title-a-as-html", lambda t, H: [H("<title>a</title>")]),
    ("title-b", lambda t, H: [t.title("b")]),
    ("title-A", lambda t, H: [t.title("A")]),
    ("title-a-space", lambda t, H: [t.title("a ")]),
    ("two-items", lambda t, H: [t.title("a"), t.meta(name="m")]),
    ("two-items-swapped", lambda t, H: [t.meta(name="m"), t.title("a")]),
    ("text", lambda t, H: ["a"]),
    ("text-escaped", lambda t, H: ["<title>a</title>"]),
    ("empty", lambda t, H: []),
    ("title-a-trailing-newline", lambda t, H: [H("<title>a</title>\n")]),
    ("title-a-leading-space", lambda t, H: [H(" <title>a</title>")]),
    ("text-leading-space", lambda t, H: [" a"]),
    ("space-only", lambda t, H: [" "]),
    ("nbsp-only", lambda t, H: ["\u00a0"]),
    ("e-acute-composed", lambda t, H: [t.title("caf\u00e9")]),
    ("e-acute-decomposed", lambda t, H: [t.title("cafe\u0301")]),
    ("angstrom-sign", lambda t, H: ["\u212b"]),
    ("a-ring", lambda t, H: ["\u00c5"]),
]


def head_content_facts():
    from htmltools import HTML, HTMLDocument, TagList, head_content, tags
    names, rendered = {}, {}
    for key, mk in HC_PAYLOADS:
        args = mk(tags, HTML)
        rendered[key] = TagList(*args).get_html_string()
        names[key] = head_content(*mk(tags, HTML)).name
    problems = []
    pairs = 0
    for (k1, m1), (k2, m2) in itertools.product(HC_PAYLOADS, repeat=2):
        pairs += 1
        same = rendered[k1] == rendered[k2]
        if (names[k1] == names[k2]) != same:
            problems.append(f"head_content names of {k1} / {k2}: equal={names[k1] == names[k2]} "
                            f"but payloads equal={same}")
        doc = HTMLDocument(tags.div(head_content(*m1(tags, HTML)), "x"), head_content(*m2(tags, HTML)))
        html = doc.render()["html"]
        head = html[html.index("<head>"):html.index("</head>")]
        n_deps = len(doc.render()["dependencies"])
        if n_deps != (1 if same else 2):
            problems.append(f"document with payloads {k1}, {k2} reports {n_deps} head_content dependencies")
        lines1, lines2 = rendered[k1].split("\n"), rendered[k2].split("\n")
        for L in sorted({x.strip() for x in lines1 + lines2 if x.strip().startswith("<")}):
            expected = rendered[k1].count(L) + (0 if same else rendered[k2].count(L))
            if head.count(L) != expected:
                problems.append(f"payloads {k1}, {k2}: line {L!r} emitted {head.count(L)} times, "
                                f"expected {expected} (equal content once, different content never merged)")
    # long payloads that differ only in the middle (equal length, identical first and last parts): never merged
    for size in (4096, 16384, 16385, 20000, 70000, 200001):
        half = (size - 40) // 2
        a = "<style>/*" + "a" * half + "MIDDLE-ONE" + "b" * (size - 40 - half) + "*/</style>"
        b = "<style>/*" + "a" * half + "MIDDLE-TWO" + "b" * (size - 40 - half) + "*/</style>"
        na, nb = head_content(HTML(a)).name, head_content(HTML(b)).name
        if na == nb:
            problems.append(f"two different head_content payloads of {len(a)} characters (differing in the middle only) get the same name")
        for txt, nm in ((a, na), (b, nb)):
            if nm != "headcontent_" + hashlib.sha1(txt.encode("utf-8")).hexdigest():
                problems.append(f"head_content name of a {len(txt)}-character payload is not the documented function of its content")
        docl = HTMLDocument(tags.div(head_content(HTML(a)), head_content(HTML(b)), head_content(HTML(a))))
        rl = docl.render()
        if len(rl["dependencies"]) != 2 or rl["html"].count("MIDDLE-ONE") != 1 or rl["html"].count("MIDDLE-TWO") != 1:
            problems.append(f"document with two long head_content payloads ({len(a)} chars): each must be included exactly once")
        pairs += 1
    # names are a function of the rendered content only: not of the dependency render mode,
    # not of invisible nodes inside the payload
    import htmltools
    from htmltools import HTMLDependency

    def mk_nested():
        return [tags.title("n"), HTMLDependency("inner", "1.0", script={"src": "i.js"})]
    n_default = head_content(*mk_nested()).name
    assert htmltools.html_dependency_render_mode == "invisible"
    htmltools.html_dependency_render_mode = "json"
    try:
        n_json = head_content(*mk_nested()).name
        n_json_plain = head_content(tags.title("a")).name
    finally:
        htmltools.html_dependency_render_mode = "invisible"
    if n_default != n_json:
        problems.append("head_content name of the same payload differs between dependency render modes")
    if n_json_plain != names["title-a"]:
        problems.append("head_content name of title-a differs in json render mode")
    want_nested = "headcontent_" + hashlib.sha1(TagList(*mk_nested()).get_html_string().encode("utf-8")).hexdigest()
    if n_default != want_nested:
        problems.append(f"head_content name with an invisible node in the payload is {n_default}, documented form is {want_nested}")
    for key in names:
        want = "headcontent_" + hashlib.sha1(rendered[key].encode("utf-8")).hexdigest()
        if names[key] != want:
            problems.append(f"head_content name of {key} is {names[key]}, documented form is {want}")
    return {"names": names, "problems": problems, "pairs": pairs}


def main():
    nperm = int(sys.argv[1])
    first_action = int(sys.argv[2]) if len(sys.argv) > 2 else 0
    items = battery()
    first = {}
    order_dependent = []
    nexec = 0
    # the very first library action of this process: battery item `first_action`
    name0, f0 = items[first_action % len(items)]
    first[name0] = f0()
    nexec += 1
    head, tail = items[:nperm], items[nperm:]
    for perm in itertools.permutations(range(len(head))):
        order = [head[i] for i in perm] + tail
        for name, f in order:
            d = f()
            nexec += 1
            if name not in first:
                first[name] = d
            elif first[name] != d:
                order_dependent.append({"item": name, "order": [n for n, _ in order]})
    import htmltools
    hc = head_content_facts()
    hc["problems"] += sorted(set(PROBLEMS))
    out = {"digests": first, "order_dependent": order_dependent[:5], "executions": nexec,
           "hc": hc, "mode": htmltools.html_dependency_render_mode if sys.displayhook is sys.__displayhook__
           else "displayhook-replaced"}
    print(json.dumps(out))


if __name__ == "__main__":
    main()
