"""Structural snapshots of htmltools object graphs (public fields only, no ids)."""
from __future__ import annotations

from typing import Any


def _plain(v):
    if isinstance(v, dict):
        return ("dict",) + tuple((k, _plain(x)) for k, x in v.items())
    if isinstance(v, (list, tuple)):
        return (type(v).__name__,) + tuple(_plain(x) for x in v)
    return (type(v).__name__, repr(v))


_STD_TAG_FIELDS = {"name", "attrs", "children", "add_ws", "prev_displayhook"}


def _extras(x, std):
    """instance attributes a user subclass added (by name and repr)"""
    d = getattr(x, "__dict__", {})
    return tuple(sorted((k, repr(v)) for k, v in d.items() if k not in std))


def snap(x: Any):
    """Structural snapshot: everything the public API exposes, recursively."""
    from htmltools import HTML, HTMLDependency, HTMLDocument, MetadataNode, Tag, TagList
    from htmltools._jsx import JSXTag
    if isinstance(x, JSXTag):
        return ("JSXTag", x.name,
                tuple((k, snap_value(v)) for k, v in x.attrs.items()),
                snap(x.children))
    if isinstance(x, Tag):
        return ("Tag", type(x).__name__, x.name, x.add_ws,
                tuple((k, type(v).__name__, str(v)) for k, v in x.attrs.items()),
                snap(x.children), type(x.attrs).__name__, _extras(x, _STD_TAG_FIELDS))
    if isinstance(x, TagList):
        return ("TagList", type(x).__name__, _extras(x, {"data"})) + tuple(snap(c) for c in x)
    if isinstance(x, HTML):
        return ("HTML", str(x))
    if isinstance(x, str):
        return (type(x).__name__, str.__str__(x))
    if isinstance(x, HTMLDependency):
        return ("Dep", x.name, str(x.version), _plain(x.source), _plain(x.script),
                _plain(x.stylesheet), _plain(x.meta), x.all_files,
                None if x.head is None else snap(x.head))
    if isinstance(x, MetadataNode):
        return ("Meta", type(x).__name__, getattr(x, "label", None), tuple(getattr(x, "marks", ())))
    if isinstance(x, HTMLDocument):
        return ("Doc", snap(x._content), _plain(x._html_attr_args))
    if isinstance(x, (list, tuple)):
        return (type(x).__name__,) + tuple(snap(c) for c in x)
    if isinstance(x, dict):
        return ("dict",) + tuple((k, snap(v)) for k, v in x.items())
    if hasattr(x, "result_spec"):
        return (type(x).__name__, repr(x.result_spec), getattr(x, "markup", None))
    if hasattr(x, "markup"):
        return (type(x).__name__, x.markup)
    return (type(x).__name__, repr(x))


def snap_value(v):
    """JSX prop values can be anything."""
    return snap(v)


def graph_ids(x: Any, acc=None):
    """ids of every Tag / TagList / attribute map / metadata node reachable via children."""
    from htmltools import MetadataNode, Tag, TagList
    if acc is None:
        acc = {}
    if isinstance(x, Tag):
        acc[id(x)] = x
        acc[id(x.attrs)] = x.attrs
        graph_ids(x.children, acc)
    elif isinstance(x, TagList):
        acc[id(x)] = x
        for c in x:
            graph_ids(c, acc)
    elif isinstance(x, MetadataNode):
        acc[id(x)] = x
        # what a dependency holds is reachable from the tree too: its head (a child list with tags),
        # and the lists / dicts describing its files
        from htmltools import HTMLDependency
        if isinstance(x, HTMLDependency):
            if x.head is not None:
                graph_ids(x.head, acc)
            for lst in (x.script, x.stylesheet, x.meta):
                if isinstance(lst, list) and lst:
                    acc[id(lst)] = lst
                    for d in lst:
                        acc[id(d)] = d
            if isinstance(x.source, dict):
                acc[id(x.source)] = x.source
    return acc


def tag_paths(x: Any, path=()):
    """(path, Tag) for every Tag reachable via children; path = tuple of child indexes."""
    from htmltools import Tag, TagList
    if isinstance(x, Tag):
        yield path, x
        for i, c in enumerate(x.children):
            yield from tag_paths(c, path + (i,))
    elif isinstance(x, TagList):
        for i, c in enumerate(x):
            yield from tag_paths(c, path + (i,))
