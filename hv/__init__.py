"""hv - bounded exhaustive exploration of py-htmltools against reference models."""
import os
import sys

REPO = os.environ.get("HV_REPO", "/repo")
VERIF = os.path.dirname(os.path.dirname(os.path.abspath(__file__)))

if REPO not in sys.path[:1]:
    sys.path.insert(0, REPO)
# never leave .pyc files in the repository under test
sys.dont_write_bytecode = True
