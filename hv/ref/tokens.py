"""R2 - strict tag tokenizer (not html.parser, which is lenient).

tokens:
  ("open", name, [(key, rawvalue)...])      <name k="v" ...>
  ("void", name, [(key, rawvalue)...])      <name k="v" .../>
  ("close", name)                           </name>
  ("text", raw)                             anything else; must not contain '<' or '>'
  ("doctype", raw)                          <!DOCTYPE ...>
script/style are raw-text elements: their content runs to the first '</script' /
'</style' (any letter case), as in an HTML tokenizer.
TokenError on anything else.
"""
from __future__ import annotations

import re

NAME = r"[A-Za-z][A-Za-z0-9:_.\-]*"
ATTR = r'[ ]([^\s"\'<>/=]+)="([^"]*)"'
_OPEN = re.compile(r"<(" + NAME + r")((?:" + ATTR + r")*)(/?)>")
_ATTR = re.compile(ATTR)
_CLOSE = re.compile(r"</(" + NAME + r")>")
_DOCTYPE = re.compile(r"<!DOCTYPE [^<>]*>")
RAWTEXT = ("script", "style")


class TokenError(Exception):
    pass


def tokenize(s: str, strict_text: bool = True):
    toks = []
    i, n = 0, len(s)
    while i < n:
        if s[i] == "<":
            m = _CLOSE.match(s, i)
            if m:
                toks.append(("close", m.group(1)))
                i = m.end()
                continue
            m = _OPEN.match(s, i)
            if m:
                name = m.group(1)
                attrs = [(a.group(1), a.group(2)) for a in _ATTR.finditer(m.group(2))]
                if m.group(5) == "/":
                    toks.append(("void", name, attrs))
                    i = m.end()
                    continue
                toks.append(("open", name, attrs))
                i = m.end()
                if name.lower() in RAWTEXT:
                    e = re.compile(r"</" + name, re.I).search(s, i)
                    if not e:
                        raise TokenError(f"unterminated <{name}> at {i}")
                    if e.start() > i:
                        toks.append(("text", s[i:e.start()]))
                    i = e.start()
                continue
            m = _DOCTYPE.match(s, i)
            if m:
                toks.append(("doctype", m.group(0)))
                i = m.end()
                continue
            raise TokenError(f"'<' at {i} does not start a tag: {s[i:i+30]!r}")
        j = s.find("<", i)
        if j < 0:
            j = n
        run = s[i:j]
        if strict_text and ">" in run:
            raise TokenError(f"raw '>' in text run at {i}: {run[:30]!r}")
        toks.append(("text", run))
        i = j
    return toks


def to_tree(toks):
    """Nest tokens: returns list of nodes; element node = [name, attrs, children, form]
    with form 'pair' or 'void'; text node = str. Raises TokenError when unbalanced."""
    root = []
    stack = [("#root", root)]
    for t in toks:
        k = t[0]
        if k == "text":
            stack[-1][1].append(t[1])
        elif k == "doctype":
            stack[-1][1].append(["!doctype", [], [], "doctype"])
        elif k == "void":
            stack[-1][1].append([t[1], t[2], [], "void"])
        elif k == "open":
            node = [t[1], t[2], [], "pair"]
            stack[-1][1].append(node)
            stack.append((t[1], node[2]))
        elif k == "close":
            if len(stack) == 1 or stack[-1][0] != t[1]:
                raise TokenError(f"end tag </{t[1]}> does not match open <{stack[-1][0]}>")
            stack.pop()
    if len(stack) != 1:
        raise TokenError(f"unclosed <{stack[-1][0]}>")
    return root
