"""R11 - mini parser for the generated React.createElement(...) expression.

value := 'React.createElement(' name [ ',' object { ',' value } ] ')'
       | string | number | 'true' | 'false' | 'null' | array | object | raw
name  := identifier path (component)  |  'quoted' (HTML tag)
raw   := identifier path (the only jsx() expressions the harness generates)
Result nodes:
  ("el", ("comp"|"tag", name), [(key, value)...], [child values...])
  ("str", text) ("num", float) ("bool", b) ("null",) ("arr", [...]) ("obj", [(k, v)...]) ("raw", text)
"""
from __future__ import annotations

import re


class JSParseError(Exception):
    pass


_WS = re.compile(r"\s*")
_IDENT = re.compile(r"[A-Za-z_$][A-Za-z0-9_$]*(?:\.[A-Za-z_$][A-Za-z0-9_$]*)*")
_NUM = re.compile(r"-?(?:[0-9]+\.?[0-9]*(?:[eE][-+]?[0-9]+)?)")
CE = "React.createElement("


class P:
    def __init__(self, s):
        self.s, self.i = s, 0

    def ws(self):
        self.i = _WS.match(self.s, self.i).end()

    def peek(self, lit):
        return self.s.startswith(lit, self.i)

    def eat(self, lit):
        self.ws()
        if not self.s.startswith(lit, self.i):
            raise JSParseError(f"expected {lit!r} at {self.i}: {self.s[self.i:self.i+40]!r}")
        self.i += len(lit)

    def string(self, q='"'):
        self.ws()
        if self.s[self.i] != q:
            raise JSParseError(f"expected string at {self.i}")
        j = self.i + 1
        out = []
        while True:
            if j >= len(self.s):
                raise JSParseError("unterminated string literal")
            c = self.s[j]
            if c == "\\":
                if j + 1 >= len(self.s):
                    raise JSParseError("dangling backslash")
                out.append(self.s[j + 1])     # \" -> ", \\ -> \ (others: identity escape)
                j += 2
                continue
            if c == q:
                break
            if c in "\n\r":
                raise JSParseError("line break inside string literal")
            out.append(c)
            j += 1
        self.i = j + 1
        return "".join(out)

    def value(self):
        self.ws()
        s = self.s
        if s.startswith(CE, self.i):
            return self.element()
        c = s[self.i] if self.i < len(s) else ""
        if c == '"':
            return ("str", self.string())
        if c == "[":
            self.i += 1
            items = []
            self.ws()
            if self.peek("]"):
                self.i += 1
                return ("arr", items)
            while True:
                items.append(self.value())
                self.ws()
                if self.peek(","):
                    self.i += 1
                    continue
                self.eat("]")
                return ("arr", items)
        if c == "{":
            return ("obj", self.object())
        if s.startswith("-Infinity", self.i):
            self.i += len("-Infinity")
            return ("num", float("-inf"))
        m = _NUM.match(s, self.i)
        if m and m.group(0):
            self.i = m.end()
            return ("num", float(m.group(0)))
        m = _IDENT.match(s, self.i)
        if m:
            self.i = m.end()
            w = m.group(0)
            if w == "true":
                return ("bool", True)
            if w == "false":
                return ("bool", False)
            if w == "null":
                return ("null",)
            if w == "Infinity":
                return ("num", float("inf"))
            if w == "NaN":
                return ("nan",)
            return ("raw", w)
        raise JSParseError(f"unexpected input at {self.i}: {s[self.i:self.i+40]!r}")

    def object(self):
        self.eat("{")
        items = []
        self.ws()
        if self.peek("}"):
            self.i += 1
            return items
        while True:
            k = self.string()
            self.eat(":")
            v = self.value()
            items.append((k, v))
            self.ws()
            if self.peek(","):
                self.i += 1
                continue
            self.eat("}")
            return items

    def element(self):
        self.eat(CE)
        self.ws()
        if self.peek("'"):
            name = ("tag", self.string("'"))
        else:
            m = _IDENT.match(self.s, self.i)
            if not m:
                raise JSParseError(f"expected element name at {self.i}")
            self.i = m.end()
            name = ("comp", m.group(0))
        self.ws()
        props, kids = [], []
        if self.peek(","):
            self.i += 1
            props = self.object()
            while True:
                self.ws()
                if self.peek(","):
                    self.i += 1
                    kids.append(self.value())
                    continue
                break
        self.eat(")")
        return ("el", name, props, kids)


def parse_expression(s: str):
    p = P(s)
    v = p.value()
    p.ws()
    if p.i != len(s):
        raise JSParseError(f"trailing input at {p.i}: {s[p.i:p.i+40]!r}")
    return v
