"""R3 (layout reference renderer) and R4 (plain concatenation), over specs.

R3 is the C06 statement / Tag docstring "Note" transcribed:
  * empty tags and tags with a single text child stay on one line;
  * otherwise a block tag puts its opening tag, each maximal run of adjacent non-block
    children, each block child and its closing tag on separate lines, children indented
    two spaces per level below the parent, closing tag aligned with the opening tag;
  * a top-level list lays out its items by the same sibling rule;
  * indent=k shifts every layout line by 2k spaces; eol is the line separator.
Valid only when no inline tag contains a block tag (C06's precondition).
"""
from __future__ import annotations

from .escape import canon_attr_escape, canon_text_escape
from ..spec import num_text

VOID = {"area", "base", "br", "col", "command", "embed", "hr", "img", "input", "keygen",
        "link", "meta", "param", "source", "track", "wbr"}
RAW = {"script", "style"}


def vis(kids):
    return [k for k in kids if k[0] not in ("M", "D", "ME", "ML", "DI", "HC")]


def is_tag(k):
    return k[0] == "E"


def is_block(k):
    return k[0] == "E" and bool(k[2])


def is_textlike(k):
    return k[0] in ("T", "TS", "N", "NS", "H")


def attr_str(attrs):
    out = ""
    for key, v in attrs:
        if isinstance(v, list) and v[0] == "H":
            val = v[1]
        elif v is True:
            val = ""
        else:
            val = canon_attr_escape(str(v))
        out += f' {key}="{val}"'
    return out


def open_(n):
    return "<" + n[1] + attr_str(n[3]) + ">"


def close_(n):
    return "</" + n[1] + ">"


def leaf(k, parent):
    kind = k[0]
    raw = parent is not None and parent[1] in RAW
    if kind in ("T", "TS"):
        return k[1] if raw else canon_text_escape(k[1])
    if kind in ("N", "NS"):
        return num_text(k) if raw else canon_text_escape(num_text(k))
    if kind in ("H", "R"):
        return k[1]
    raise ValueError(k)


def ref_tag(n, indent, eol):
    """Rendering of element n WITHOUT its own leading indentation."""
    kids = vis(n[4])
    if not kids:
        if n[1] in VOID:
            return "<" + n[1] + attr_str(n[3]) + "/>"
        return open_(n) + close_(n)
    if len(kids) == 1 and is_textlike(kids[0]):
        return open_(n) + leaf(kids[0], n) + close_(n)
    if is_block(n):
        return (open_(n) + eol + ref_siblings(kids, indent + 1, eol, n)
                + eol + "  " * indent + close_(n))
    return open_(n) + "".join(ref_inline(k, n) for k in kids) + close_(n)


def ref_inline(k, parent):
    return ref_tag(k, 0, "") if is_tag(k) else leaf(k, parent)


def ref_siblings(kids, indent, eol, parent=None):
    """Sibling rule; also the top-level TagList rule. kids already vis()-filtered."""
    lines, run = [], []
    pad = "  " * indent
    for k in kids:
        if is_block(k):
            if run:
                lines.append(pad + "".join(run))
                run = []
            lines.append(pad + ref_tag(k, indent, eol))
        else:
            run.append(ref_inline(k, parent))
    if run:
        lines.append(pad + "".join(run))
    return eol.join(lines)


def ref_render_tag(n, indent=0, eol="\n"):
    return "  " * indent + ref_tag(n, indent, eol)


def ref_render_list(kids, indent=0, eol="\n"):
    return ref_siblings(vis(kids), indent, eol, None)


# ------------------------------------------------------------------ R4
def concat(k, parent=None):
    """Open tags, content, close tags with nothing else."""
    if k[0] in ("M", "D", "ME", "ML", "DI", "HC"):
        return ""
    if not is_tag(k):
        return leaf(k, parent)
    kids = vis(k[4])
    if not kids and k[1] in VOID:
        return "<" + k[1] + attr_str(k[3]) + "/>"
    return open_(k) + "".join(concat(c, k) for c in kids) + close_(k)


def contains_ws_tag(k):
    if k[0] != "E":
        return False
    return bool(k[2]) or any(contains_ws_tag(c) for c in k[4])


def inline_contains_block(k):
    """True if some ws-off tag has a ws-on descendant (outside C06's domain)."""
    if k[0] != "E":
        return False
    if not k[2] and any(contains_ws_tag(c) for c in k[4]):
        return True
    return any(inline_contains_block(c) for c in k[4])
