"""R1 - what a valid escaping of a string is (written from the statements of C02/C03).

valid_escape(E, s, must): E consists of literal characters and character references;
  * every '&' in E starts a well-formed reference (&name; / &#d; / &#xh;),
  * a reference is used only for a character in `must`, and every character in `must`
    is written as a reference (never raw),
  * every other character is unchanged,
  * decoding gives exactly s.
Any spelling of a reference is accepted (&amp; or &#38; or &#x26;).
"""
from __future__ import annotations

import html.entities
import re

TEXT_MUST = frozenset("&<>")
ATTR_MUST = frozenset("&<>\"'\r\n")

_REF = re.compile(r"&(?:#([0-9]+)|#[xX]([0-9a-fA-F]+)|([A-Za-z][A-Za-z0-9]*));")
_NAMED = {k[:-1]: v for k, v in html.entities.html5.items() if k.endswith(";")}


def decode_units(E: str):
    """-> list of (char, was_reference) or None if some '&' is not a well-formed ref."""
    out = []
    i, n = 0, len(E)
    while i < n:
        c = E[i]
        if c != "&":
            out.append((c, False))
            i += 1
            continue
        m = _REF.match(E, i)
        if not m:
            return None
        if m.group(1) is not None:
            cp = int(m.group(1))
        elif m.group(2) is not None:
            cp = int(m.group(2), 16)
        else:
            v = _NAMED.get(m.group(3))
            if v is None or len(v) != 1:
                return None
            cp = ord(v)
        if cp > 0x10FFFF:
            return None
        out.append((chr(cp), True))
        i = m.end()
    return out


def valid_escape(E: str, s: str, must=TEXT_MUST) -> str | None:
    """None if E is a valid escaping of s, else a reason."""
    units = decode_units(E)
    if units is None:
        return "a '&' in the output does not start a well-formed character reference"
    if len(units) != len(s):
        return f"decodes to {len(units)} characters, original has {len(s)}"
    for (c, ref), o in zip(units, s):
        if c != o:
            return f"decodes to {c!r} where the original has {o!r}"
        if ref and o not in must:
            return f"character {o!r} was written as a reference but must stay unchanged"
        if not ref and o in must:
            return f"character {o!r} emitted raw"
    return None


def canon_text_escape(s: str) -> str:
    """The canonical (library-style) text escaping, used where byte equality with the
    reference layout is wanted (C06) - independent re-implementation, char by char."""
    out = []
    for c in s:
        if c == "&":
            out.append("&amp;")
        elif c == "<":
            out.append("&lt;")
        elif c == ">":
            out.append("&gt;")
        else:
            out.append(c)
    return "".join(out)


def canon_attr_escape(s: str) -> str:
    m = {"&": "&amp;", "<": "&lt;", ">": "&gt;", '"': "&quot;", "'": "&apos;",
         "\r": "&#13;", "\n": "&#10;"}
    return "".join(m.get(c, c) for c in s)
