"""R8 (dependency resolution) and R9 (document assembly) reference models.

Dependencies are described by plain dicts ("depinfo"):
  {"name": str, "version": str, "source": None | {"href":..} | {"subdir":.., "package":..},
   "script": [dict...], "stylesheet": [dict...], "meta": [dict...], "all_files": bool,
   "head": None | str (markup) }
The reference never calls HTMLDependency methods; it builds plain Tag objects and lets
the library's ordinary renderer lay them out (layout is C06's business).
"""
from __future__ import annotations

import re

# ---------------------------------------------------------------- versions (R8)
_VER = re.compile(r"^[0-9]+(\.[0-9]+)*$")


def parse_version(v: str):
    """Dotted-integer version -> tuple without trailing zero components (1.10 == 1.10.0)."""
    if not _VER.match(v):
        raise ValueError(f"reference version parser only knows dotted integers: {v!r}")
    parts = [int(x) for x in v.split(".")]
    while len(parts) > 1 and parts[-1] == 0:
        parts.pop()
    return tuple(parts)


def version_text(v: str) -> str:
    """How a dotted-integer version is displayed (canonical: as given, ints normalised)."""
    return ".".join(str(int(x)) for x in v.split("."))


def resolve(items):
    """items: list of (name, version_str, payload). One per name: highest version, earliest
    on ties; names ordered by first occurrence."""
    order = []
    best = {}
    for name, ver, payload in items:
        pv = parse_version(ver)
        if name not in best:
            order.append(name)
            best[name] = (pv, (name, ver, payload))
        elif pv > best[name][0]:
            best[name] = (pv, (name, ver, payload))
    return [best[n][1] for n in order]


# ---------------------------------------------------------------------- URLs (R9)
_UNRESERVED = set("ABCDEFGHIJKLMNOPQRSTUVWXYZabcdefghijklmnopqrstuvwxyz0123456789_.-~/")


def pct_encode(path: str) -> str:
    out = []
    for ch in path:
        if ch in _UNRESERVED:
            out.append(ch)
        else:
            out.append("".join("%%%02X" % b for b in ch.encode("utf-8")))
    return "".join(out)


def join_url(base: str, rel: str) -> str:
    if base == "":
        return rel
    if base.endswith("/"):
        return base + rel
    return base + "/" + rel


def dep_href(info, lib_prefix, include_version) -> str:
    src = info.get("source")
    if src is None:
        return ""
    if "href" in src:
        return src["href"]
    href = info["name"]
    if include_version:
        href += "-" + version_text(info["version"])
    if lib_prefix:
        href = join_url(lib_prefix, href)
    return href


def dep_nodes(info, lib_prefix="lib", include_version=True):
    """Plain Tag objects for one dependency: meta, link, script, then head markup."""
    from htmltools import HTML, Tag
    base = dep_href(info, lib_prefix, include_version)
    nodes = []
    for m in info.get("meta") or []:
        nodes.append(Tag("meta", dict(m)))
    for s in info.get("stylesheet") or []:
        d = dict(s)
        d["href"] = join_url(base, pct_encode(s["href"]))
        d["rel"] = "stylesheet"
        nodes.append(Tag("link", d))
    for s in info.get("script") or []:
        d = dict(s)
        d["src"] = join_url(base, pct_encode(s["src"]))
        nodes.append(Tag("script", d))
    if info.get("head_spec") is not None:
        # head given as nodes (head_content(...)): the nodes themselves, in order
        from ..spec import build
        nodes.extend(build(c) for c in info["head_spec"])
    elif info.get("head") is not None:
        nodes.append(HTML(info["head"]))
    return nodes


def listing_node(infos):
    from htmltools import Tag
    txt = ";".join(i["name"] + "[" + version_text(i["version"]) + "]" for i in infos)
    return Tag("script", txt, type="application/html-dependencies")


def head_payload(infos, lib_prefix="lib", include_version=True):
    """listing script (iff any dependency) followed by every dependency's nodes."""
    out = []
    if infos:
        out.append(listing_node(infos))
    for i in infos:
        out.extend(dep_nodes(i, lib_prefix, include_version))
    return out


def resolve_infos(infos):
    return [p for (_, _, p) in resolve([(i["name"], i["version"], i) for i in infos])]


def build_dep(info):
    """Real HTMLDependency from a depinfo (fresh copies of all mutable parts)."""
    from htmltools import HTMLDependency
    import copy
    kw = {}
    for k in ("source", "script", "stylesheet", "meta"):
        if info.get(k) is not None:
            kw[k] = copy.deepcopy(info[k])
    if info.get("all_files"):
        kw["all_files"] = True
    if info.get("head_form"):
        # head given as objects: one Tag passed directly, a list of children, or a TagList
        from htmltools import TagList
        from ..spec import build
        nodes = [build(c) for c in info["head_spec"]]
        form = info["head_form"]
        kw["head"] = nodes[0] if form == "tag" else (TagList(*nodes) if form == "taglist" else nodes)
    elif info.get("head") is not None:
        kw["head"] = info["head"]
    return HTMLDependency(info["name"], info["version"], **kw)
