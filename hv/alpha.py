"""Shared alphabets and tree spaces."""
from __future__ import annotations

from .space import Alt, Const, Map, Prod, Seq, Space
from .spec import B, I, Vb, Vi, E, T, H, R, M

CONFIGS_QUICK = [(0, "\n"), (1, "\n"), (2, "\r\n"), (1, "")]
CONFIGS_THOROUGH = CONFIGS_QUICK + [(3, "\n\n"), (0, " ")]


def valid_trees(inline_leaves, block_leaves, inline_kinds, block_kinds, depth, widths):
    """Trees in which no inline (ws-off) tag contains a block (ws-on) tag.

    Returns (inline_space, block_space): block_space holds every valid tree of depth
    <= depth; inline_space those without any ws-on tag.  block_leaves must include
    inline_leaves.  widths: int or per-level list (root level first).
    """
    if isinstance(widths, int):
        widths = [widths] * max(depth, 1)
    il, bl = Const(inline_leaves), Const(block_leaves)
    ik, bk = Const(list(inline_kinds)), Const(list(block_kinds))
    mk = lambda kv: kv[0](kv[1])  # noqa: E731
    inl = Alt(il, Map(ik, lambda k: k([])))
    blk = Alt(bl, Map(ik, lambda k: k([])), Map(bk, lambda k: k([])))
    for d in range(depth, 0, -1):
        w = widths[d - 1]
        inl2 = Alt(il, Map(Prod(ik, Seq(inl, 0, w)), mk))
        blk2 = Alt(bl, Map(Prod(ik, Seq(inl, 0, w)), mk), Map(Prod(bk, Seq(blk, 0, w)), mk))
        inl, blk = inl2, blk2
    return inl, blk


def only_elements(space: Space) -> Space:
    """Lazy view on the element-rooted cases: relies on Alt ordering (leaves first)."""
    class _Tail(Space):
        def __init__(self, inner, skip):
            self.inner, self.skip = inner, skip
            self.size = inner.size - skip

        def __getitem__(self, i):
            return self.inner[i + self.skip]
    skip = 0
    while skip < space.size and space[skip][0] != "E":
        skip += 1
    return _Tail(space, skip)
