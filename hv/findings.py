"""known_findings.json: read-only at run time.

{"open":  [{"property": "C14", "key": "<violation key or prefix*>", "what": "..."}],
 "fixed": ["fixed: property=C03 <commit> <what failed>", ...]}

`open` entries suppress (as KNOWN-FINDING lines) only violations whose key matches;
`fixed` entries suppress nothing.
"""
import json
import os

from . import VERIF


def load_known(prop: str) -> list:
    path = os.path.join(VERIF, "known_findings.json")
    if not os.path.exists(path):
        return []
    with open(path) as f:
        data = json.load(f)
    return [e for e in data.get("open", []) if e.get("property") == prop]


def match_known(known: list, key: str):
    for e in known:
        k = e["key"]
        if k.endswith("*"):
            if key.startswith(k[:-1]):
                return e
        elif key == k:
            return e
    return None
